"""C03 — geometry validation accepts exactly the valid geometries and normalises them."""
from __future__ import annotations

import copy
import json
from fractions import Fraction
from types import SimpleNamespace

from ..core import Prop, guarded, listlit, natlit, qlit
from .. import geomgen as G

GT = {
    "TimeStamp": "TTimeStamp", "TimeInterval": "TTimeInterval", "Point": "TPoint", "LineString": "TLineString",
    "Polygon": "TPolygon", "BoundingBox": "TBBox", "MultiPoint": "TMultiPoint",
    "MultiLineString": "TMultiLineString", "MultiPolygon": "TMultiPolygon",
}
MAXF = Fraction(G.MAXF)


def tree_lit(t):
    if isinstance(t, list):
        return "(Lst " + listlit(t, tree_lit) + ")"
    return f"(Num {qlit(t)})"


def to_py(t):
    if isinstance(t, list):
        return [to_py(x) for x in t]
    f = float(t)
    return int(f) if (f.is_integer() and abs(f) < 2**31 and hash(str(t)) % 3 == 0) else f


class C03(Prop):
    ID = "C03"
    IMPORTS = ["Geom.Validate"]
    RULE = (
        "trees generated from valid skeletons of each of the nine types plus mutations (wrong arity 0/1/3, one level too "
        "shallow/deep, one coordinate negative / above MAX_FREQUENCY at a random depth, reversed box/line, equal end "
        "points, exactly 0 / exactly MAX_FREQUENCY, empty lists, too few points); each tree goes through the constructor, "
        "geometry_validate(dict), (attributes), (json) and the dump of every accepted result is re-validated; all "
        "observations must equal the model. Non-trivial = mutated tree or accepted tree with normalisation; distinct by hash"
    )
    TRUSTED = [
        "pydantic's lax coercion (int->float, tuple->list) and JSON parsing are not modelled: the four entry points are one "
        "function in the model, their agreement is a correspondence fact",
        "non-finite numbers are outside the quantifier and outside Q",
    ]

    # ------------------------------------------------------------------ generation
    def _mutate(self, rng, tree, typ):
        t = copy.deepcopy(tree)
        # collect paths to numbers and to lists
        nums, lists = [], []

        def walk(x, path):
            if isinstance(x, list):
                lists.append(path)
                for i, y in enumerate(x):
                    walk(y, path + [i])
            else:
                nums.append(path)

        walk(t, [])

        def get(path):
            x = t
            for i in path:
                x = x[i]
            return x

        def setv(path, v):
            nonlocal t
            if not path:
                t = v
                return
            x = t
            for i in path[:-1]:
                x = x[i]
            x[path[-1]] = v

        kind = rng.choice(
            ["neg", "bigf", "zero", "maxf", "arity-", "arity+", "empty", "deeper", "shallower", "swap", "equal", "drop", "just-over", "tiny-neg"]
        )
        if kind in ("neg", "bigf", "zero", "maxf", "just-over", "tiny-neg") and nums:
            p = rng.choice(nums)
            v = {
                "neg": Fraction(-1, 4), "bigf": MAXF + 1, "zero": Fraction(0), "maxf": MAXF,
                "just-over": MAXF + Fraction(1, 1024), "tiny-neg": Fraction(-1, 2**20),
            }[kind]
            setv(p, v)
        elif kind == "arity-" and lists:
            p = rng.choice(lists)
            l = get(p)
            if l:
                l.pop(rng.randrange(len(l)))
        elif kind == "arity+" and lists:
            p = rng.choice(lists)
            l = get(p)
            l.append(copy.deepcopy(l[0]) if l else Fraction(1))
        elif kind == "empty" and lists:
            setv(rng.choice(lists), [])
        elif kind == "deeper":
            p = rng.choice(nums + lists) if (nums or lists) else []
            setv(p, [get(p)])
        elif kind == "shallower" and lists:
            p = rng.choice(lists)
            l = get(p)
            if l:
                setv(p, l[0])
        elif kind == "swap" and lists:
            p = rng.choice(lists)
            get(p).reverse()
        elif kind == "equal" and lists:
            p = rng.choice(lists)
            l = get(p)
            if len(l) >= 2:
                l[-1] = copy.deepcopy(l[0])
        elif kind == "drop" and lists:
            p = rng.choice(lists)
            l = get(p)
            while len(l) > 1 and rng.random() < 0.7:
                l.pop()
        return t, kind

    def _case(self, rng, typ):
        g = G.rgeom(rng, typ, holes=rng.random() < 0.6)  # rings beyond the first (holes) must be validated too
        tree = g["coordinates"]
        if typ in ("LineString",) and rng.random() < 0.3:
            tree = list(reversed(tree))
        if typ in ("LineString", "MultiLineString") and rng.random() < 0.12:
            # first and last vertex at the same time: a single line is left as it is (idempotent normal form), a member of a
            # multi-line is not strictly forward and must be rejected
            line = tree if typ == "LineString" else tree[0]
            line[-1] = [line[0][0], line[-1][1]]
        if typ == "BoundingBox" and rng.random() < 0.4:
            # corners in any order, also with one degenerate axis: the normal form has start <= end and low <= high
            if rng.random() < 0.5:
                tree[0], tree[2] = tree[2], tree[0]
            if rng.random() < 0.5:
                tree[1], tree[3] = tree[3], tree[1]
            k = rng.random()
            if k < 0.25:
                tree[2] = tree[0]
            elif k < 0.5:
                tree[3] = tree[1]
        r = rng.random()
        kind = "valid"
        if r < 0.6:
            tree, kind = self._mutate(rng, tree, typ)
            if rng.random() < 0.25:
                tree, k2 = self._mutate(rng, tree, typ)
                kind += "+" + k2
        tag = typ
        if rng.random() < 0.05:
            tag = rng.choice(G.TYPES + ["Circle", ""])
        return {"kind": kind, "type": typ, "tag": tag, "tree": tree}

    def cases(self, rng, tier):
        n = {"quick": 300, "thorough": 5000}[tier]
        out = []
        for typ in G.TYPES:
            out += [self._case(rng, typ) for _ in range(n)]
        return out

    # ------------------------------------------------------------------ implementation
    @staticmethod
    def _obs_geom(r):
        if r[0] == "ok":
            g = r[1]
            return ["ok", G.from_impl(g), type(g).__name__]
        return ["err", r[1]]

    def run(self, c):
        from soundevent import data

        tree = to_py(c["tree"])
        cls = getattr(data, c["type"])
        out = {}
        out["ctor"] = self._obs_geom(guarded(lambda: cls(coordinates=tree)))
        obj = {"type": c["tag"], "coordinates": tree}
        out["dict"] = self._obs_geom(guarded(data.geometry_validate, obj, mode="dict"))
        out["attr"] = self._obs_geom(guarded(data.geometry_validate, SimpleNamespace(**obj), mode="attributes"))
        out["json"] = self._obs_geom(guarded(data.geometry_validate, json.dumps(obj), mode="json"))
        # re-validation of the JSON dump of every accepted result
        re = []
        for k, fn in (("ctor", lambda: cls(coordinates=tree)), ("dict", lambda: data.geometry_validate(obj, mode="dict"))):
            if out[k][0] == "ok":
                g = fn()
                txt = g.model_dump_json()
                g2 = guarded(data.geometry_validate, txt, mode="json")
                re.append(self._obs_geom(g2) + [bool(g2[0] == "ok" and g2[1] == g)])
        out["revalidated"] = re
        out["res"] = out["ctor"][:1]
        return out

    # ------------------------------------------------------------------ model
    def _rhs(self, o):
        if o[0] == "ok":
            return f"(Ok {G.coq_geom(o[1])})"
        return f"(Err {o[1]})"

    def agree(self, c, o):
        T = GT[c["type"]]
        tree = tree_lit(c["tree"])
        parts = [f"rgeom_eqb (validate {T} {tree}) {self._rhs(o['ctor'])}"]
        if c["tag"] in G.TYPES:
            tagn = natlit(G.TYPES.index(c["tag"]))
        else:
            tagn = natlit(99)
        for k in ("dict", "attr", "json"):
            parts.append(f"rgeom_eqb (geometry_validate {tagn} {tree}) {self._rhs(o[k])}")
        for k in ("ctor", "dict", "attr", "json"):
            if o[k][0] == "ok":
                want = c["type"] if k == "ctor" else c["tag"]
                if o[k][2] != want:
                    parts.append("false")
        for r in o["revalidated"]:
            if r[0] != "ok" or not r[3]:
                parts.append("false")
        return " && ".join(parts)

    def show(self, c):
        return f"(validate {GT[c['type']]} {tree_lit(c['tree'])})"

    # ------------------------------------------------------------------ oracle: the declarative rules on Fractions
    @staticmethod
    def _valid_tree(typ, t):
        """returns normalised coordinates or None"""
        num = lambda x: isinstance(x, Fraction)
        isl = lambda x: isinstance(x, list)

        def pt(p):
            return isl(p) and len(p) == 2 and num(p[0]) and num(p[1]) and p[0] >= 0 and 0 <= p[1] <= MAXF

        def pts(l, n):
            return isl(l) and len(l) >= n and all(pt(p) for p in l)

        if typ == "TimeStamp":
            return t if num(t) and t >= 0 else None
        if typ == "TimeInterval":
            ok = isl(t) and len(t) == 2 and all(num(x) for x in t) and t[0] >= 0 and t[1] >= 0 and t[0] <= t[1]
            return t if ok else None
        if typ == "Point":
            return t if pt(t) else None
        if typ == "LineString":
            if not pts(t, 2):
                return None
            return list(reversed(t)) if t[0][0] > t[-1][0] else t
        if typ == "Polygon":
            ok = isl(t) and len(t) >= 1 and all(pts(r, 3) for r in t)
            return t if ok else None
        if typ == "BoundingBox":
            ok = isl(t) and len(t) == 4 and all(num(x) for x in t) and t[0] >= 0 and t[2] >= 0 and 0 <= t[1] <= MAXF and 0 <= t[3] <= MAXF
            if not ok:
                return None
            return [min(t[0], t[2]), min(t[1], t[3]), max(t[0], t[2]), max(t[1], t[3])]
        if typ == "MultiPoint":
            return t if pts(t, 1) else None
        if typ == "MultiLineString":
            ok = isl(t) and len(t) >= 1 and all(pts(l, 2) and l[0][0] < l[-1][0] for l in t)
            return t if ok else None
        if typ == "MultiPolygon":
            ok = isl(t) and len(t) >= 1 and all(isl(p) and len(p) >= 1 and all(pts(r, 3) for r in p) for p in t)
            return t if ok else None
        return None

    def oracle(self, c, o):
        fails = []

        def fail(kind, what, **a):
            fails.append({"kind": kind, "what": what, "attrs": dict(a, type=c["type"])})

        want = self._valid_tree(c["type"], c["tree"])
        # constructor
        if want is None:
            if o["ctor"][0] == "ok":
                fail("invalid-accepted", f"{c['type']} constructor accepted invalid coordinates ({c['kind']})")
            elif o["ctor"][1] != "EValidation":
                fail("wrong-error", f"{c['type']} constructor raised {o['ctor'][1]} instead of a validation error")
        else:
            if o["ctor"][0] != "ok":
                fail("valid-rejected", f"{c['type']} constructor rejected valid coordinates ({c['kind']})")
            elif o["ctor"][1]["coordinates"] != want:
                fail("not-normalised", f"{c['type']} stored coordinates differ from the normal form")
            elif o["ctor"][2] != c["type"]:
                fail("wrong-class", f"constructor returned {o['ctor'][2]}")
        # the three modes
        want_m = self._valid_tree(c["tag"], c["tree"]) if c["tag"] in G.TYPES else None
        for k in ("dict", "attr", "json"):
            ob = o[k]
            if want_m is None:
                if ob[0] == "ok":
                    fail("invalid-accepted", f"geometry_validate({k}) accepted invalid input (tag {c['tag']!r}, {c['kind']})", mode=k)
                elif ob[1] not in ("EValue", "EValidation"):
                    fail("wrong-error", f"geometry_validate({k}) raised {ob[1]}", mode=k)
            else:
                if ob[0] != "ok":
                    fail("valid-rejected", f"geometry_validate({k}) rejected valid input (tag {c['tag']})", mode=k)
                elif ob[1]["coordinates"] != want_m or ob[2] != c["tag"] or ob[1]["type"] != c["tag"]:
                    fail("mode-result", f"geometry_validate({k}) result differs (class {ob[2]}, tag {c['tag']})", mode=k)
        for r in o["revalidated"]:
            if r[0] != "ok" or not r[3]:
                fail("revalidate", "re-validating the JSON dump does not yield an equal geometry")
        return fails

    def nontrivial(self, c, o):
        return c["kind"] != "valid" or (o["ctor"][0] == "ok" and o["ctor"][1]["coordinates"] != c["tree"])

    def tags(self, c, o):
        return [c["type"], "kind:" + c["kind"].split("+")[0], f"ctor:{o['ctor'][0]}", "tag-changed" if c["tag"] != c["type"] else "tag-same"]


PROP = C03
