"""C19 — tag encoding projects faithfully onto the vocabulary; equal objects hash equally."""
from __future__ import annotations

import copy
import datetime
import itertools
import json
import uuid as uuidlib
from fractions import Fraction

from ..core import Prop, guarded, listlit, natlit, optlit, pairlit, qlit, zlit

TERM_FIELDS_ORDER = None  # filled at run time: name first, then the other declared fields


def _term_fields():
    from soundevent import data

    global TERM_FIELDS_ORDER
    if TERM_FIELDS_ORDER is None:
        fs = list(data.Term.model_fields)
        TERM_FIELDS_ORDER = ["name"] + [f for f in fs if f != "name"]
    return TERM_FIELDS_ORDER


class Tok:
    """maps python values (by JSON text) to small integer tokens; None -> 0"""

    def __init__(self):
        self.m = {}

    def __call__(self, v):
        if v is None:
            return 0
        k = json.dumps(v, sort_keys=True, default=str)
        if k not in self.m:
            self.m[k] = len(self.m) + 1
        return self.m[k]


# a small pool of term descriptions: same name / different label, same label / different name, extra fields
TERM_POOL = [
    {"name": "a:sp", "label": "species", "definition": "d"},
    {"name": "a:sp", "label": "species", "definition": "other definition"},
    {"name": "a:sp", "label": "Species2", "definition": "d"},
    {"name": "b:sp", "label": "species", "definition": "d"},
    {"name": "b:ev", "label": "event", "definition": "d", "uri": "http://x/ev"},
    {"name": "b:ev", "label": "event", "definition": "d", "uri": "http://x/other"},
    {"name": "b:ev", "label": "event", "definition": "d", "comment": "c"},
]
VALUES = ["x", "y", "species", " y ", "x\n"]  # values are data: blanks and line ends included


def tag_pool():
    return [{"term": t, "value": v} for t in range(len(TERM_POOL)) for v in VALUES]


class C19(Prop):
    ID = "C19"
    IMPORTS = ["Eval.Encoding"]
    PRELUDE = (
        "Definition ol := fix f (a b : list (option nat)) : bool := match a, b with [] , [] => true "
        "| x :: a', y :: b' => on_eqb x y && f a' b' | _, _ => false end.\n"
    )
    RULE = (
        "encoding cases: vocabularies of 0..4 distinct tags drawn from a pool whose terms share names or labels but "
        "differ in other fields (exhaustive over ordered vocabularies of size <=2 in quick, <=3 in thorough, random "
        "beyond), tag lists with repeats and out-of-vocabulary members, predicted tags with float32-exact scores; "
        "hash/eq cases: pairs of objects of the eight hashable classes (equal copies and one-field variations). "
        "Non-trivial = vocabulary of >=2 tags with at least one in-vocabulary and one out-of-vocabulary query / an "
        "unequal pair; distinct by input hash"
    )
    TRUSTED = [
        "Python dict semantics (a key is found iff hashes are equal and == holds) are modelled by key_match",
        "harness/hash_extract.py: static reading that every hand-written __hash__ is `return hash(<declared fields of self>)`",
        "string/field equality is mapped to token equality by the harness (canonical JSON of each declared field)",
    ]

    # ------------------------------------------------------------------ generation
    def _enc_case(self, rng, vocab):
        pool = tag_pool()
        n = rng.randint(0, 6)
        tags = []
        for _ in range(n):
            if vocab and rng.random() < 0.55:
                tags.append(rng.choice(vocab))
            else:
                tags.append(rng.randrange(len(pool)))
        m = rng.randint(0, 6)
        ptags = []
        for _ in range(m):
            t = rng.choice(vocab) if vocab and rng.random() < 0.6 else rng.randrange(len(pool))
            ptags.append([t, Fraction(rng.randint(0, 16), 16)])
        return {"kind": "encode", "vocab": list(vocab), "tags": tags, "ptags": ptags}

    def setup(self, tier):
        # static, fail-closed reading of the hand-written __hash__ methods: each must be hash(<declared fields only>)
        from .. import hash_extract as H
        from ..core import REPO_SRC

        self.ASSUMPTIONS = list(type(self).ASSUMPTIONS)
        try:
            self.static = H.hash_problems(REPO_SRC)
            self.ASSUMPTIONS += ["static reading of __hash__: " + m + " — correspondence only" for m in H.hash_unreadable(REPO_SRC)]
        except Exception as e:
            self.static = []
            self.ASSUMPTIONS.append(f"static reading of __hash__ failed ({type(e).__name__}: {e}) — correspondence only")

    def _hash_case(self, rng):
        cls = rng.choice(["Term", "Tag", "Feature", "Note", "SoundEvent", "SoundEventAnnotation", "SoundEventPrediction", "ClipPrediction"])
        var = rng.choice(["copy", "copy", "vary", "vary", "vary"])
        return {"kind": "hasheq", "cls": cls, "variation": var, "seed": rng.randrange(10**6)}

    def cases(self, rng, tier):
        pool_n = len(tag_pool())
        out = []
        top = 2 if tier == "quick" else 3
        idx = list(range(pool_n))
        for k in range(top + 1):
            perms = list(itertools.permutations(idx, k))
            if k == 3:
                perms = rng.sample(perms, 4000)
            for v in perms:
                out.append(self._enc_case(rng, v))
        nrand = 600 if tier == "quick" else 12000
        for _ in range(nrand):
            k = rng.randint(3, 4)
            out.append(self._enc_case(rng, rng.sample(idx, k)))
        nh = 900 if tier == "quick" else 18000
        out += [self._hash_case(rng) for _ in range(nh)]
        return out

    # ------------------------------------------------------------------ implementation
    def _mk_tag(self, i):
        from soundevent import data

        d = tag_pool()[i]
        return data.Tag(term=data.Term(**TERM_POOL[d["term"]]), value=d["value"])

    def _tag_tokens(self, tok, tag):
        dump = tag.term.model_dump(mode="json")
        return ([tok(dump[f]) for f in _term_fields()], tok(tag.value))

    def _mk_obj(self, cls, r, vary):
        """build an object of class cls from random stream r; `vary` = name of a field to change (or None)"""
        from soundevent import data

        U = lambda k: uuidlib.UUID(int=1000 + k)
        term = data.Term(**TERM_POOL[0])
        term2 = data.Term(**TERM_POOL[1])
        rec = data.Recording(uuid=U(1), path="a.wav", duration=10, channels=1, samplerate=8000)
        rec2 = data.Recording(uuid=U(2), path="b.wav", duration=10, channels=1, samplerate=8000)
        user = data.User(uuid=U(3), name="u")
        t0 = datetime.datetime(2024, 1, 1, 12, 0, 0)
        geom = data.BoundingBox(coordinates=[1, 2, 3, 4])
        geom2 = data.BoundingBox(coordinates=[1, 2, 3, 5])
        se = data.SoundEvent(uuid=U(4), geometry=geom, recording=rec)
        se2 = data.SoundEvent(uuid=U(4), geometry=geom2, recording=rec)
        tag = data.Tag(term=term, value="x")
        tag2 = data.Tag(term=term2, value="x")
        clip = data.Clip(uuid=U(5), recording=rec, start_time=0, end_time=1)
        clip2 = data.Clip(uuid=U(5), recording=rec, start_time=0, end_time=2)
        base = {
            "Term": (data.Term, dict(TERM_POOL[4]), {"name": "zz", "label": "L2", "definition": "D2", "uri": "http://y", "comment": "cc"}),
            "Tag": (data.Tag, {"term": term, "value": "x"}, {"term": term2, "value": "y"}),
            "Feature": (data.Feature, {"term": term, "value": 1.5}, {"term": term2, "value": 2.5}),
            "Note": (
                data.Note,
                {"uuid": U(6), "message": "m", "created_by": user, "is_issue": False, "created_on": t0},
                {"uuid": U(7), "message": "m2", "created_by": None, "is_issue": True, "created_on": t0 + datetime.timedelta(1)},
            ),
            "SoundEvent": (
                data.SoundEvent,
                {"uuid": U(8), "geometry": geom, "recording": rec, "features": []},
                {"uuid": U(9), "geometry": geom2, "recording": rec2, "features": [data.Feature(term=term, value=1.0)]},
            ),
            "SoundEventAnnotation": (
                data.SoundEventAnnotation,
                {"uuid": U(10), "sound_event": se, "notes": [], "tags": [tag], "created_by": user, "created_on": t0},
                {"uuid": U(11), "sound_event": se2, "notes": [data.Note(uuid=U(6), message="m", created_on=t0)], "tags": [tag2], "created_by": None, "created_on": t0 + datetime.timedelta(1)},
            ),
            "SoundEventPrediction": (
                data.SoundEventPrediction,
                {"uuid": U(12), "sound_event": se, "score": 0.5, "tags": [data.PredictedTag(tag=tag, score=0.5)]},
                {"uuid": U(13), "sound_event": se2, "score": 0.25, "tags": [data.PredictedTag(tag=tag, score=0.75)]},
            ),
            "ClipPrediction": (
                data.ClipPrediction,
                {"uuid": U(14), "clip": clip, "sound_events": [], "sequences": [], "tags": [], "features": []},
                {"uuid": U(15), "clip": clip2, "sound_events": [data.SoundEventPrediction(uuid=U(12), sound_event=se, score=0.5)], "sequences": [], "tags": [data.PredictedTag(tag=tag, score=0.5)], "features": [data.Feature(term=term, value=1.0)]},
            ),
            "PredictedTag": (data.PredictedTag, {"tag": tag, "score": 0.5}, {"tag": tag2, "score": 0.25}),
        }[cls]
        klass, kw, alt = base
        kw = dict(kw)
        if vary is not None:
            kw[vary] = alt[vary] if vary in alt else "varied-" + vary  # optional string fields of Term
        return klass(**kw), list(klass.model_fields)

    def run(self, c):
        import numpy as np
        import random as _r
        from soundevent import data
        from soundevent.evaluation import classification_encoding, create_tag_encoder, multilabel_encoding, prediction_encoding

        if c["kind"] == "encode":
            tok = Tok()
            vocab = [self._mk_tag(i) for i in c["vocab"]]
            pool = [self._mk_tag(i) for i in range(len(tag_pool()))]
            r = guarded(create_tag_encoder, vocab)
            if r[0] != "ok":
                return {"res": ["err", r[1]], "msg": r[2]}
            enc = r[1]
            out = {"res": ["ok"]}
            out["vocab_tok"] = [self._tag_tokens(tok, t) for t in vocab]
            out["pool_tok"] = [self._tag_tokens(tok, t) for t in pool]
            out["encode_pool"] = [enc.encode(t) for t in pool]
            out["decode_ok"] = all(enc.decode(i) == vocab[i] for i in range(len(vocab)))
            out["num_classes"] = enc.num_classes
            tags = [self._mk_tag(i) for i in c["tags"]]
            out["classification"] = classification_encoding(tags, enc)
            out["multilabel"] = [int(x) for x in multilabel_encoding(tags, enc)]
            # predicted tags are built from the vocabulary's own Tag objects where possible (users share objects): constructing
            # them must not disturb the encoder or the objects
            by_index = {i: t for i, t in zip(c["vocab"], vocab)}
            ptags = [data.PredictedTag(tag=by_index.get(i) or self._mk_tag(i), score=float(s)) for i, s in c["ptags"]]
            out["prediction"] = [Fraction(float(x)) for x in prediction_encoding(ptags, enc)]
            out["identity_after"] = all(enc.encode(enc.decode(i)) == i for i in range(len(vocab)))
            out["vocab_unchanged"] = [self._tag_tokens(tok, t) for t in vocab] == out["vocab_tok"]
            for k in ("classification",):
                if out[k] is not None:
                    out[k] = int(out[k])
            out["encode_pool"] = [None if x is None else int(x) for x in out["encode_pool"]]
            return out
        # hash / eq
        rr = _r.Random(c["seed"])
        a, fields = self._mk_obj(c["cls"], rr, None)
        vary = None
        if c["variation"] == "vary":
            vary = rr.choice(fields)
        b, _ = self._mk_obj(c["cls"], rr, vary)
        tok = Tok()
        da, db = a.model_dump(mode="json"), b.model_dump(mode="json")
        out = {
            "res": ["ok"],
            "varied": vary,
            "fields": fields,
            "a_tok": [tok(da[f]) for f in fields],
            "b_tok": [tok(db[f]) for f in fields],
            "eq": bool(a == b),
            "eq_sym": bool(b == a),
            "refl": bool(a == copy.deepcopy(a)),
        }
        ha = guarded(hash, a)
        hb = guarded(hash, b)
        hc = guarded(hash, copy.deepcopy(a))
        out["hashable"] = ha[0] == "ok" and hb[0] == "ok"
        out["hash_eq"] = out["hashable"] and ha[1] == hb[1]
        out["hash_copy_eq"] = ha[0] == "ok" and hc[0] == "ok" and ha[1] == hc[1]
        if out["hashable"]:
            s = {a}
            out["set_member"] = b in s
            out["dict_get"] = {a: 1}.get(b) == 1
            # objects equal to b obtained by other routes than the constructor, from objects that were already hashed:
            # they must compare equal to b and hash like b
            bad = []

            def derive(x, like):
                """like, rebuilt from the (hashed) x by model_copy(update=...), nested models included"""
                upd = {}
                for f in type(like).model_fields:
                    v, w = getattr(like, f), getattr(x, f)
                    if hasattr(type(v), "model_fields") and type(v) is type(w):
                        upd[f] = derive(w, v)
                    else:
                        upd[f] = v
                return x.model_copy(update=upd)

            routes = {
                "model_copy": lambda: derive(a, b),
                "json": lambda: type(b).model_validate_json(b.model_dump_json()),
                "dict": lambda: type(b).model_validate(b.model_dump()),
                "deepcopy": lambda: copy.deepcopy(b),
            }
            for name, mk in routes.items():
                r = guarded(mk)
                if r[0] != "ok":
                    continue
                x = r[1]
                if x == b and (guarded(hash, x) != hb):
                    bad.append(name)
            # the same for a term renamed by model_copy after it was hashed, alone and inside a tag / feature
            from soundevent import data as _d

            tp = dict(TERM_POOL[rr.randrange(len(TERM_POOL))])
            t = _d.Term(**tp)
            hash(t), hash(_d.Tag(term=t, value="v")), hash(_d.Feature(term=t, value=1.0))
            newname = tp["name"] + "#renamed"
            t2, fresh = t.model_copy(update={"name": newname}), _d.Term(**{**tp, "name": newname})
            for name, x, y in [("rename-term", t2, fresh), ("rename-tag", _d.Tag(term=t2, value="v"), _d.Tag(term=fresh, value="v")),
                               ("rename-feature", _d.Feature(term=t2, value=1.0), _d.Feature(term=fresh, value=1.0))]:
                if x == y and hash(x) != hash(y):
                    bad.append(name)
            out["stale_routes"] = bad
        return out

    # ------------------------------------------------------------------ model
    @staticmethod
    def _tag(t):
        return f"({listlit(t[0], zlit)}, {zlit(t[1])})"

    def agree(self, c, o):
        if o["res"][0] != "ok":
            return "false"
        if c["kind"] != "encode" and getattr(self, "static", None):
            return "false"  # a __hash__ that is not a function of the declared fields: the congruence argument no longer applies
        if c["kind"] == "encode":
            vocab = "(" + listlit(o["vocab_tok"], self._tag) + " : list tag)"
            pool = o["pool_tok"]
            tags = listlit([pool[i] for i in c["tags"]], self._tag)
            ptags = listlit([(pool[i], s) for i, s in c["ptags"]], lambda p: f"({self._tag(p[0])}, {qlit(p[1])})")
            enc_pool = listlit(o["encode_pool"], lambda x: optlit(x, natlit))
            parts = [
                f"ol (map (encode tag_hash {vocab}) {listlit(pool, self._tag)}) {enc_pool}",
                f"on_eqb (classification_encoding tag_hash {vocab} {tags}) {optlit(o['classification'], natlit)}",
                f"zlist_eqb (multilabel_encoding tag_hash {vocab} {tags}) {listlit(o['multilabel'], zlit)}",
                f"qlist_eqb (prediction_encoding tag_hash {vocab} {ptags}) {listlit(o['prediction'], qlit)}",
                f"Nat.eqb {natlit(o['num_classes'])} (length {vocab})",
                "true" if o["decode_ok"] else "false",
            ]
            return " && ".join(parts)
        a, b = listlit(o["a_tok"], zlit), listlit(o["b_tok"], zlit)
        return f"Bool.eqb (obj_eqb {a} {b}) {'true' if o['eq'] else 'false'}"

    def show(self, c):
        return None

    # ------------------------------------------------------------------ oracle
    def oracle(self, c, o):
        fails = []

        def fail(kind, what, **attrs):
            fails.append({"kind": kind, "what": what, "attrs": attrs})

        if o["res"][0] != "ok":
            fail("raised", f"raised {o['res']} {o.get('msg')}")
            return fails
        if c["kind"] == "encode" and (o.get("identity_after") is False or o.get("vocab_unchanged") is False):
            fail("encoder-corrupted", "building predicted tags from the vocabulary's Tag objects changed those objects / broke encode(decode(i)) == i")
        if c["kind"] == "encode":
            vocab, pool = o["vocab_tok"], o["pool_tok"]
            for i, t in enumerate(pool):
                want = next((k for k, v in enumerate(vocab) if v == t), None)
                if o["encode_pool"][i] != want:
                    fail("encode", f"encode(pool tag {i}) = {o['encode_pool'][i]}, but it equals vocabulary tag {want}")
                    break
            tags = [pool[i] for i in c["tags"]]
            enc = lambda t: next((k for k, v in enumerate(vocab) if v == t), None)
            want = next((enc(t) for t in tags if enc(t) is not None), None)
            if o["classification"] != want:
                fail("classification", f"classification_encoding = {o['classification']}, first in-vocabulary tag has index {want}")
            want = [1 if any(enc(t) == k for t in tags) else 0 for k in range(len(vocab))]
            if o["multilabel"] != want:
                fail("multilabel", f"multilabel_encoding = {o['multilabel']}, indicator is {want}")
            want = [Fraction(0)] * len(vocab)
            for i, s in c["ptags"]:
                k = enc(pool[i])
                if k is not None:
                    want[k] = s
            if o["prediction"] != want:
                fail("prediction", f"prediction_encoding = {[float(x) for x in o['prediction']]}, expected {[float(x) for x in want]}")
            if not o["decode_ok"] or o["num_classes"] != len(vocab):
                fail("decode", "decode(i) is not the i-th vocabulary tag / num_classes wrong")
            return fails
        if o["eq"] != o["eq_sym"]:
            fail("eq-not-symmetric", f"{c['cls']}: a == b is {o['eq']} but b == a is {o['eq_sym']}", cls=c["cls"])
        if not o["refl"]:
            fail("copy-not-equal", f"{c['cls']}: a deep copy does not compare equal", cls=c["cls"])
        if o["eq"] and not o["hash_eq"]:
            fail("equal-objects-different-hash", f"{c['cls']}: objects compare equal but hash differently (varied field {o['varied']})", cls=c["cls"], varied=o["varied"])
        if o.get("stale_routes"):
            fail("equal-objects-different-hash", f"{c['cls']}: an equal object obtained through {o['stale_routes']} hashes differently", cls=c["cls"], varied="route:" + ",".join(o["stale_routes"]))
        if not o["hash_copy_eq"]:
            fail("copy-different-hash", f"{c['cls']}: a deep copy hashes differently or is unhashable", cls=c["cls"])
        if o["eq"] and o.get("hashable") and not (o.get("set_member") and o.get("dict_get")):
            fail("dict-set-unsound", f"{c['cls']}: equal object not found as set member / dict key", cls=c["cls"])
        want_eq = o["a_tok"] == o["b_tok"]
        if o["eq"] != want_eq:
            fail("eq-not-fieldwise", f"{c['cls']}: == is {o['eq']} but declared fields are {'equal' if want_eq else 'different'} (varied {o['varied']})", cls=c["cls"], varied=o["varied"])
        return fails

    def nontrivial(self, c, o):
        if o["res"][0] != "ok":
            return False
        if c["kind"] == "encode":
            return len(c["vocab"]) >= 2 and any(x is not None for x in o["encode_pool"]) and any(x is None for x in o["encode_pool"])
        return not o["eq"]

    def tags(self, c, o):
        if c["kind"] == "encode":
            return ["encode", f"vocab:{len(c['vocab'])}"]
        return ["hasheq", f"hasheq:{c['cls']}", f"hasheq:{'equal' if o.get('eq') else 'unequal'}"]


PROP = C19
