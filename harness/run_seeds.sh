#!/bin/bash
# usage: build/run_seeds_r2.sh "C01:C01 C02" "C02:C02 C01" ...
cd /verif
for spec in "$@"; do
  p=${spec%%:*}; checks=${spec#*:}
  if [ ! -f /tmp/seed/$p/demo_$p.py ]; then echo "$p: no demo yet"; continue; fi
  bash harness/seedtest.sh $p $checks > build/seed_${SUFFIX:-r}_$p.log 2>&1
  echo "== $p: $(grep -E 'passed|demo_with_rc|demo_without_rc|check_.*_rc' build/seed_${SUFFIX:-r}_$p.log | tr '\n' ' ' | cut -c1-400)"
done
