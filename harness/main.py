"""CLI of the /verif checks:  ./check C12 --tier quick|thorough [--replay FILE]"""
import argparse
import importlib
import os
import sys
from pathlib import Path

sys.path.insert(0, str(Path(__file__).resolve().parent.parent))
from harness import core  # noqa: E402


def main():
    ap = argparse.ArgumentParser()
    ap.add_argument("prop")
    ap.add_argument("--tier", default=os.environ.get("VERIF_TIER", "quick"), choices=["quick", "thorough"])
    ap.add_argument("--seed", type=int, default=int(os.environ.get("VERIF_SEED", "20260930")))
    ap.add_argument("--replay")
    a = ap.parse_args()
    mod = importlib.import_module(f"harness.props.{a.prop}")
    prop = mod.PROP()
    if a.replay:
        sys.exit(core.run_replay(prop, a.replay))
    sys.exit(core.run_check(prop, a.tier, a.seed))


if __name__ == "__main__":
    main()
