#!/bin/bash
# usage: harness/seedcheck.sh <seed dir name> [check ids...]  — apply seeded/<dir>/patch.diff to /repo, run the checks, restore
cd /verif
d=$1; shift; pid=$(echo $d | cut -c1-3); checks=${@:-$pid}
git -C /repo status --short | grep -q . && { echo "/repo dirty"; exit 2; }
git -C /repo apply /verif/seeded/$d/patch.diff || { echo "patch does not apply"; exit 3; }
for c in $checks; do
  ./check $c > build/seedcheck_${d}_$c.log 2>&1; rc=$?
  echo "$d vs $c: exit $rc  $(grep -E '^VIOLATION' build/seedcheck_${d}_$c.log | head -1 | cut -c1-120)"
  tail -1 build/seedcheck_${d}_$c.log | cut -c1-200
done
git -C /repo checkout -- .; git -C /repo clean -fdq -- src
