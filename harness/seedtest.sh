#!/bin/bash
# usage: harness/seedtest.sh Cxx [check ids...]   — confirm a sub-agent's seeded change and run our check(s) against it
pid=$1; shift; checks=${@:-$pid}
wt=/tmp/seed/$pid
set -u
cd $wt || exit 2
git diff -- src > $wt/patch.diff
[ -s $wt/patch.diff ] || { echo "NO PATCH"; exit 2; }
out=/verif/seeded/$pid${SUFFIX:-}; mkdir -p $out
cp $wt/patch.diff $out/patch.diff; cp $wt/demo_$pid.py $out/ 2>/dev/null
echo "== test-suite with the change"
suite=$(PYTHONPATH=$wt/src /venv/bin/python -m pytest -q -p no:cacheprovider --timeout=900 2>&1 | tail -1); echo "$suite"
echo "== demo with the change"
PYTHONPATH=$wt/src /venv/bin/python -W ignore demo_$pid.py >$out/demo_with.log 2>&1; dw=$?; echo "demo_with_rc=$dw"
git apply -R $wt/patch.diff 2>/dev/null || git checkout -q -- src   # -R also removes files the patch adds
echo "== demo without the change"
PYTHONPATH=$wt/src /venv/bin/python -W ignore demo_$pid.py >$out/demo_without.log 2>&1; dwo=$?; echo "demo_without_rc=$dwo"
git apply $wt/patch.diff
echo "== our checks on /repo with the change applied"
cd /repo && git status --short | grep -q . && { echo "/repo dirty"; exit 3; }
git -C /repo apply $wt/patch.diff || { echo "patch does not apply to /repo"; exit 4; }
cd /verif
res=""
for c in $checks; do
  ./check $c > $out/check_$c.log 2>&1; rc=$?
  grep -v "^KNOWN-FINDING" $out/check_$c.log | cut -c1-300; echo "check_${c}_rc=$rc"; res="$res $c:$rc"
  cp /verif/replays/${c}_*.json $out/ 2>/dev/null
done
git -C /repo checkout -- .; git -C /repo clean -fdq -- src
git -C /repo status --short
echo "{\"suite\": \"$suite\", \"demo_with_rc\": $dw, \"demo_without_rc\": $dwo, \"checks\": \"$res\"}" > $out/result.json
