"""Regenerates MANIFEST.json from the table below (keeps it valid at all times)."""
import json
from pathlib import Path

VERIF = Path(__file__).resolve().parent.parent

# id -> (level text, level note, technique, design_ref)
CLAIMED = {
    "C12": (
        "Coq theorems over all rationals for intervals_overlap (iff-characterisation by intersection length, symmetry incl. "
        "errors, monotonicity in both thresholds, exact error conditions), the geometry wrappers and is_in_clip; model tied "
        "to /repo/src by an exact differential run (dyadic inputs, all 81 type pairs, edge placements) inside coqc.",
        "Trusted: Coq kernel/vm_compute; hand-written model of operations.py/conversion.py (correspondence-checked, not "
        "verified); float rounding not modelled (Q proofs; dyadic stream exact); GEOS envelope re-implemented in Gallina.",
        "Rocq/Coq proof over Q + model/implementation correspondence by vm_compute",
        "DESIGN.md section 6, C12",
    ),
}

CLAIMED["C14"] = (
    "Coq theorems for all rational start/end/duration/hop: k-th window = (start+k*hop, min(start+k*hop+dur, end)); window k "
    "is produced iff it starts inside the clip and (fits or include_incomplete); inside parent; exact duration; truncation; "
    "coverage when hop<=duration; strictly increasing starts (distinct ids); rejection iff non-positive; the loop ends by a "
    "break, never by its bound. Model tied to /repo/src by exact differential run on dyadic inputs.",
    "Trusted: Coq kernel/vm_compute; hand-written model of operations.py (correspondence-checked); uuid5/repr(float) "
    "injectivity assumed (ids compared with uuid5 recomputed from the bounds); float rounding not modelled.",
    "Rocq/Coq proof over Q (induction on the generator loop) + model/implementation correspondence by vm_compute",
    "DESIGN.md section 6, C14",
)

CLAIMED["C16"] = (
    "Coq theorems for all rationals: create_range_dim = lattice start+i*step with exactly ceil(q-1/2) points (hence n when "
    "q=(stop-start)/step is whole, and robust to any |q-n|<1/2), every coordinate in [start,stop), step attribute; size and "
    "samplerate variants; get_coord_index on any strictly increasing axis returns the unique i with c[i]<=v<c[i+1] (last "
    "index at the upper edge), KeyError or clamp (0 / size) outside; set_value_at_pos writes exactly the addressed cells "
    "(scalar and block values), every other cell and the length unchanged. Model tied to /repo/src by differential run: "
    "dyadic stream exact, decimal stream (0.1, 1/3, 1/44100 ...) counts exact and coordinates to 1e-9.",
    "Trusted: Coq kernel/vm_compute; hand-written model of dimensions.py/operations.py; np.arange length/fill rule and "
    "pandas get_slice_bound re-implemented in Gallina (correspondence-checked); float rounding not modelled (decimal stream "
    "generated with the quotient within 1/4 of a whole number, where the proved count is rounding-robust).",
    "Rocq/Coq proof over Q + model/implementation correspondence by vm_compute",
    "DESIGN.md section 6, C16",
)

CLAIMED["C13"] = (
    "Coq theorems for every n and every (symmetric) relation: the groups partition 0..n-1 (Permutation), are non-empty, keep "
    "input order, and two events share a group iff they are linked in the reflexive-symmetric-transitive closure of the "
    "similarity relation (invariant by induction over the processed edges of a label-merging pass); the comparison function "
    "is queried exactly on the pairs i<j<n, once each. Model tied to /repo/src by exhaustive enumeration of all graphs on "
    "<=5 (thorough <=6) nodes plus random larger graphs, with the real function's recorded call list compared.",
    "Trusted: Coq kernel/vm_compute; scipy connected_components is replaced in the model by a proved label-merging pass and "
    "validated through the final grouping; grouping by label modelled declaratively (first-occurrence order) and also as the "
    "Python loop, both compared with the real output on every case.",
    "Rocq/Coq proof (induction over edges, closure lemmas) + exhaustive/random model/implementation correspondence",
    "DESIGN.md section 6, C13",
)

CLAIMED["C07"] = (
    "Coq theorems for every matrix and size: the brute-force optimum bounds every one-to-one partial pairing; a proved-sound "
    "checker (coverage of every source/target exactly once, pairs only with positive affinity reporting M[i][j], one-sided "
    "entries 0, total maximal) is evaluated in Coq on every real output; the model of the post-processing of the solver "
    "answer is proved to satisfy the same spec for all sizes given the solver contract. M comes from the real "
    "compute_affinity; the recorded solver answer post-processed by the model must equal the real output.",
    "Trusted: Coq kernel/vm_compute; scipy linear_sum_assignment optimality only as contract lsa_spec for sizes beyond 6x6 "
    "(checked by brute force up to 6x6 on every run); float totals compared with tolerance 1e-9.",
    "Rocq/Coq proof (sound checker + model theorems) evaluated on real outputs; model/implementation correspondence",
    "DESIGN.md section 6, C07",
)

CLAIMED["C19"] = (
    "Coq theorems for every vocabulary of distinct tags and every tag list: encode t = Some i iff the i-th vocabulary tag "
    "equals t (Python dict modelled with explicit hash + equality), decode/encode inverse, None iff not in the vocabulary; "
    "classification = index of the first in-vocabulary tag; multilabel = indicator vector; prediction = last score per slot; "
    "out-of-vocabulary tags never change any result; equal objects hash equally when the hashed projection is a function of "
    "the compared fields. Correspondence: exhaustive small vocabularies over a pool of look-alike terms, and pairs of objects "
    "of the eight hashable classes on which Python == must equal field-wise equality and == must imply equal hash().",
    "Trusted: Coq kernel/vm_compute; in the model tag equality is equality of all declared fields (so every hash respects it); "
    "that the real hash() respects the real == is decided by the correspondence/oracle half on generated pairs, not by a "
    "theorem; Python dict semantics modelled by key_match; strings mapped to tokens by the harness.",
    "Rocq/Coq proof + exhaustive/random model/implementation correspondence; hash/eq half by differential observation",
    "DESIGN.md section 6, C19",
)

CLAIMED["C03"] = (
    "Coq theorems for every numeric tree and each of the nine types: validate T t = Ok g iff t is the dump of some g0 of "
    "type T satisfying the rules (accept) and g is its normal form; every failure is a validation error; accepted "
    "coordinates are all >= 0 / within [0, MAX_FREQUENCY] at any nesting depth; the result is valid, in normal form and of "
    "the requested class; normalisation only reverses a line or swaps box corners; re-validating the dump is the identity; "
    "geometry_validate returns the class named by the tag and a ValueError otherwise. Correspondence: mutated trees through "
    "constructor, dict, attributes and JSON modes plus re-validation of every accepted dump, all compared with the model.",
    "Trusted: Coq kernel/vm_compute; hand-written model of the nine validators; pydantic's lax coercion and JSON parsing not "
    "modelled (the four entry points are one function in the model; their agreement is checked by correspondence).",
    "Rocq/Coq proof + model/implementation correspondence by vm_compute",
    "DESIGN.md section 6, C03",
)

CLAIMED["C05"] = (
    "Coq theorems for every geometry: compute_bounds is the coordinate-wise min/max over the envelope points (attained, "
    "ordered, defined for every valid geometry), closed forms for time stamps / intervals / boxes / points (time-only types "
    "span [0, MAX_FREQUENCY]); the shapely conversion keeps exactly the geometry's coordinates and the kind; every reported "
    "feature is the named function of the bounds and num_segments the number of parts; every named position is the "
    "corresponding corner / edge midpoint / centre and lies inside the bounds; convex combinations stay inside. "
    "Correspondence compares bounds, shapely coordinates+kind, feature list and the nine positions exactly.",
    "Trusted: Coq kernel/vm_compute; GEOS envelope re-implemented (shell only for polygons: holes assumed inside their shell); "
    "centroid / point_on_surface are GEOS computations, only checked to lie inside the bounds (partial); zero-width boxes "
    "compared as coordinate sets because GEOS drops the repeated closing point.",
    "Rocq/Coq proof over Q + model/implementation correspondence by vm_compute (centroid clause: differential check only)",
    "DESIGN.md section 6, C05",
)

CLAIMED["C11"] = (
    "PARTIAL. Proved in Coq for all rationals: a negative buffer is rejected for every type (iff); the type dispatch; the three "
    "closed forms (time stamp, interval, box) are exactly the interval/box widened by the buffers and clamped at 0 / "
    "MAX_FREQUENCY, valid, containing the original, monotone in the buffers, identity for zero buffers. The shapely branch "
    "(all other types) is GEOS: it is not modelled; validity, containment, bounds extension and monotonicity are judged there "
    "by the oracle on generated inputs only, with four recorded known findings (polygonal caps, mitre limit / reversals, "
    "GeometryCollection KeyError).",
    "Trusted: Coq kernel/vm_compute; hand-written model of the guard/dispatch/closed forms (correspondence exact on dyadic "
    "inputs); GEOS buffer, clip_by_rect and to_geojson are outside the proofs — for that branch the check is differential "
    "testing, not proof.",
    "Rocq/Coq proof for the closed-form branch + correspondence; shapely branch by property oracle (differential testing)",
    "DESIGN.md section 6, C11",
)

CLAIMED["C06"] = (
    "Coq theorems over all rationals: time branch (either geometry time-only): value = IoU of the prepared time extents, in "
    "[0,1], symmetric, 0 when disjoint, 1 on self-comparison with non-zero extent, shift invariant (time stamps enter through "
    "their closed-form buffer, which commutes with shifts when not clamped at 0); area branch for EVERY answer GEOS may give "
    "(0 <= i <= a1+a2): in [0,1], symmetric, exactly 1 on self-comparison even if i comes back above the area, 0 for empty "
    "intersection, = i/(a1+a2-i) under the GEOS contract i <= min(a1,a2); two boxes: rectangle areas computed in Gallina, so "
    "range / symmetry / self / disjoint / area-IoU hold unconditionally. Correspondence recomputes the code's result from the "
    "recorded GEOS quantities on all 81 type pairs.",
    "Trusted: Coq kernel/vm_compute; GEOS buffer/area/intersection are inputs of the model (recorded per case by calling shapely "
    "on the prepared shapes as the code does); the value of a general-polygon IoU is GEOS's (partial: the model proves what the "
    "code does with it); comparisons of quotients to 1e-12, symmetry/shift to 1e-9/1e-7 (float rounding not modelled).",
    "Rocq/Coq proof over Q + model/implementation correspondence by vm_compute with GEOS quantities as recorded inputs",
    "DESIGN.md section 6, C06",
)

CLAIMED["C04"] = (
    "Coq theorems for every arrangement: a clip evaluation is constructible iff annotations and predictions are of the same "
    "clip, the match targets/sources are duplicate-free and are exactly the annotated / predicted sound events (so each is "
    "mentioned exactly once, nothing foreign), every match has a source or a target, and every affinity/score lies in [0,1]; "
    "project iff every annotated clip has a task; clip iff start <= end; unit interval bounds. Correspondence: every case is "
    "pushed through constructor, model_validate(dict), model_validate_json and io.load of a hand-edited AOEF document and the "
    "accept/reject outcome of all four must equal the model.",
    "Trusted: Coq kernel/vm_compute; hand-written model of the validators; that pydantic runs the validators on each path is a "
    "correspondence fact; Evaluation.score (unbounded alias, not anchored) is outside the check.",
    "Rocq/Coq proof (boolean validators <-> declarative conditions) + four-path accept/reject correspondence",
    "DESIGN.md section 6, C04",
)

CLAIMED["C17"] = (
    "Coq theorems for every axis: crop_dim returns exactly the samples of the requested interval — unconditionally for closed "
    "ends, and for open ends when no coordinate lies within eps of them (the unrestricted statement is refuted by a proved "
    "witness: known finding); extend_dim = fill-valued lattice points + the untouched original samples + fill-valued lattice "
    "points, the added points being exactly the lattice points strictly between the eps-shifted requested ends and the axis; "
    "adjust_dim_width / crop_dim_width / extend_dim_width return exactly `width` samples for every width >= 1, the original "
    "block placed at start / centre / end, new samples on the lattice with the fill value; invalid ranges / widths rejected. "
    "Correspondence: dyadic stream exact, decimal stream counts exact and coordinates to 1e-9.",
    "Trusted: Coq kernel/vm_compute; xarray label slicing / reindex and np.arange re-implemented in Gallina (correspondence); "
    "estimate_dim_step tolerance check not modelled (regular axes only); float rounding not modelled (the decimal stream keeps "
    "range ends >= step/4 away from lattice points).",
    "Rocq/Coq proof over Q + model/implementation correspondence by vm_compute",
    "DESIGN.md section 6, C17",
)

CLAIMED["C20"] = (
    "Coq theorems: a value list of the wrong length is rejected, a single value never; the result is a grid over the "
    "template's time x frequency coordinates; later geometries overwrite earlier ones and untouched cells hold the fill value "
    "(fold over the geometry list); for a rectangle in bin-index space the centre rule is decided exactly, and for a bounding "
    "box whose corners map (get_coord_index, clamped) to bins (i0,j0)-(i1,j1) a cell is set iff i0 <= i < i1 and j0 <= j < j1. "
    "The model has no notion of dimension order / extra dimensions / contents; the correspondence runs both orders, extra "
    "channel dimension, random contents, dtypes, and compares every cell the model decides (general polygons by exact "
    "even-odd crossing in Q; on-edge centres and cells near zero-area shapes undecided). PARTIAL for non-rectangular "
    "polygons and all_touched (GDAL contract).",
    "Trusted: Coq kernel/vm_compute; GDAL polygon fill assumed to be the centre rule (differentially checked on decided "
    "cells); all_touched only checked as superset; zero-area shapes: GDAL line burning not modelled (known finding).",
    "Rocq/Coq proof over Q/Z + model/implementation correspondence by vm_compute (general polygons: exact point-in-polygon model)",
    "DESIGN.md section 6, C20",
)

CLAIMED["C08"] = (
    "Coq theorems: the evaluated clips are exactly the predicted clips whose id is annotated (prediction order), each against "
    "annotations of the same clip; for every valid solver answer every annotated and every predicted sound event, with or "
    "without geometry, occurs in exactly one match (so the ClipEvaluation validator of C04 cannot fire); a pair has positive "
    "affinity, reports exactly that affinity and as score the probability the prediction gives to the annotation's class "
    "(1 - sum for an unlabelled annotation); unpaired events report 0 / 0; scores aggregate as means (0 when empty). "
    "Correspondence compares, per evaluated clip, the multiset of (source, target, affinity, score), the clip score, the "
    "evaluated clip ids in order and the overall score.",
    "Trusted: Coq kernel/vm_compute; the affinity matrix, the solver's assignment and the encoders' outputs are recorded from "
    "the real functions and are inputs of the model (their own properties: C06, C07, C19); float32 score storage (scores in "
    "1/16 steps are exact), means compared to 1e-9.",
    "Rocq/Coq proof (built on the C07 matching theorems) + model/implementation correspondence by vm_compute",
    "DESIGN.md section 6, C08",
)

CLAIMED["C09"] = (
    "Independent Gallina definitions over Q of accuracy, balanced accuracy, top-3 accuracy, (mean) average precision, Jaccard "
    "and true-class probability, and the metric tables of the four tasks. Coq theorems: the terms of every list are pairwise "
    "distinct; every reported value is the definition its term names (name -> definition map); scores aggregate as means; "
    "every run metric and the score are invariant under any permutation of the evaluated items. Correspondence: scikit-learn "
    "is not trusted — every value at run / clip / match level is recomputed by the Gallina definitions from the encoded truths "
    "and scores; the oracle additionally saves and reloads each evaluation (every metric must survive) and re-runs the task "
    "with the clips permuted.",
    "Trusted: Coq kernel/vm_compute; multilabel_example_score (exp(-log loss)) is an opaque per-clip input, only its mean is "
    "modelled; scikit-learn's conventions adopted and stated: ties in top-3 rank the higher class index first, AP of a class "
    "without positives is 0; survival of save/load and order independence of the implementation are observed, not proved "
    "(the AOEF round trip is C01).",
    "Rocq/Coq proof (independent metric definitions, permutation invariance) + model/implementation correspondence by vm_compute",
    "DESIGN.md section 6, C09",
)

CLAIMED["C15"] = (
    "Coq theorems: load_clip returns exactly floor(duration*sr) frames = the file's frames from floor(start*sr) on, zero past "
    "the end, on the time lattice (offset+i)/sr with step 1/sr (axis length = frame count, so construction cannot fail), "
    "each frame equal to the same frame of load_recording; load_recording = the file on the lattice i/sr; a lattice axis is "
    "strictly increasing with coordinate i exactly first+i*step; resample: scipy's time vector starts at the source start and "
    "every coordinate is within one advertised step (1/target) of first+i/target; spectrogram: both axes are exact lattices "
    "with the advertised steps, the time step being a whole number >= 1 of audio samples. Correspondence on harness-written "
    "WAV files (power-of-two rates exact; 8000..48000 Hz with margins), clips across / at / beyond EOF.",
    "Trusted: Coq kernel/vm_compute; libsndfile seek/read/zero-fill, scipy stft framing (boundary='zeros', padded) and "
    "scipy.signal.resample's time vector are modelled from their source and validated by correspondence only; IEEE rounding "
    "of floor(start*sr) not modelled (inputs exact or with 1e-6 margin); windows longer than the audio excluded.",
    "Rocq/Coq proof over Q/Z (built on the C16 range theorems) + model/implementation correspondence by vm_compute",
    "DESIGN.md section 6, C15",
)

CLAIMED["C10"] = (
    "Coq theorems (labels as Coq strings): the label_to_tags cascade in precedence order (empty label, function, term mapping, "
    "explicit term, tag mapping, key mapping, explicit key, fallback; the label is the value) and the label_from_tags cascade "
    "(sequence function, empty, select by key, index modulo length always in range, join); imports scale times by 1/te and "
    "frequencies by te exactly once (sample indices: index/(sr/te)/te == index/sr); exports span the bounds, set sample indices "
    "to floor(time*sr), cap the high frequency at Nyquist, reject what crowsetta rejects; sequences keep order and skip or "
    "raise on unconvertible events; export after import reproduces onset/offset/frequency bounds. Correspondence over the "
    "option combinations, all geometry types, time expansions 1, 2, 10, 1/2.",
    "Trusted: Coq kernel/vm_compute; crowsetta 4.0.0.post2 constructors/validators as read from its source; where the "
    "documented cascade is ambiguous (a term set explicitly or via term_mapping suppresses tag_mapping) the model follows the "
    "code and the oracle does not judge; division by te=10 compared to 1e-12.",
    "Rocq/Coq proof + model/implementation correspondence by vm_compute",
    "DESIGN.md section 6, C10",
)

CLAIMED["C01"] = (
    "Coq theorem for EVERY schema, collection adapter and well-formed object graph (typed; same identifier = same object): "
    "schema_okb sch rt = true -> load_root (save_root U) = Some U, by invariants of the registering traversal (keys unique, "
    "closed, every record is the flattening of a sub-object, same-table references point backwards) and a loader invariant "
    "over the re-registration order; corollaries: same type, n-cycle fixpoint of object and document. Tied to this code by "
    "schema_okb current T = true for the 8 collection types (vm_compute) where `current` is the generated reading of the 26 "
    "adapter modules, itself compared on every run with the real JSON documents and the really loaded objects (model save vs "
    "real document, model load of the real document vs real load) inside coqc, plus a fail-closed inventory of declared "
    "fields. The pinned tree's three defective rows are refuted by witness in Coq and were repaired in /repo.",
    "Trusted: Coq kernel/vm_compute; the schema table in harness/aoef.py and the translator harness/aoef_extract.py (each "
    "checked against the other and against the real documents); scalar codecs (JSON text, "
    "float repr, timestamps, geometry JSON) are interned tokens, observed by the oracle, not modelled; inline objects modelled "
    "as pseudo-tables; ADAPTERS order and the collection_type discriminator are checked by the inventory and the oracle, not "
    "by a theorem.",
    "Rocq/Coq proof (generic schema-driven model, nested induction); schema rows regenerated from the adapter sources by an "
    "ast translator on every run + model/implementation correspondence by vm_compute",
    "DESIGN.md section 6, C01 and section 10.3",
)

CLAIMED["C02"] = (
    "Coq theorems for every schema, adapter and object: identifiers unique in every top-level list (unconditional); with the "
    "boolean closure check and a typed object every identifier mentioned anywhere is defined exactly once, the objects defined "
    "are exactly the distinct reachable ones, nothing is written elsewhere, a same-list reference (sequence parent) points to "
    "an earlier entry. closure_okb current T = true for the 8 collection types. A boolean audit (closedb), proved sound, is "
    "evaluated inside coqc on the id skeleton of every real document, and the skeleton is compared with the model's document. "
    "The pinned tree's PredictionSet / EvaluationSet rows are refuted by witness (dangling identifier) and were repaired.",
    "Trusted: Coq kernel/vm_compute; the schema table and the JSON-to-skeleton reader of harness/aoef.py; dense tag ids "
    "(0..n-1) are positions in the model and checked on the real document by the oracle only.",
    "Rocq/Coq proof + proved-sound audit of real documents; schema rows regenerated from the adapter sources by an ast "
    "translator on every run + model/implementation correspondence by vm_compute",
    "DESIGN.md section 6, C02 and section 10.3",
)

CLAIMED["C18"] = (
    "Coq theorems over paths as component lists, for every directory, every number of recordings and every position of an "
    "outside recording: stored path = path relative to the directory (and only such paths are stored), one recording outside "
    "makes the whole conversion fail with ValueError, saving under A and loading under B maps A/x to B/x for every recording, "
    "no directory = identity. Correspondence on all 8 collection types x directory depth 0-4 (unicode, spaces) x str/Path/"
    "trailing slash x inside/outside/sibling-prefix/parent/relative recordings x load directory: every stored path, every "
    "loaded Recording.path, the error class, and that no file is written on failure.",
    "Trusted: Coq kernel/vm_compute; pathlib's parsing into parts (library contract); that each collection adapter threads "
    "audio_dir to its recording adapter is established by the correspondence over all 8 types, not by a theorem; '..' "
    "components are outside the generated domain.",
    "Rocq/Coq proof + model/implementation correspondence by vm_compute",
    "DESIGN.md section 6, C18",
)

NOT_YET = {}


# properties whose anchored functions are also READ FROM THE SOURCE on every run (harness/pygen.py -> coq/Gen/Source.v)
GEN = {
    "C03": "the @field_validator chains of all nine geometry classes",
    "C06": "compute_affinity_in_time, the area branch of compute_affinity (zero-union guard, division, clamp; the three GEOS quantities are parameters) and the two type sets of affinity.py",
    "C11": "buffer_geometry (guard, dispatch) and the three closed-form buffers",
    "C12": "intervals_overlap, have_temporal_overlap, have_frequency_overlap, is_in_clip",
    "C14": "the generator loop of segment_clip",
    "C19": "classification_encoding, multilabel_encoding and prediction_encoding (the encoder entering through its encode function and num_classes)",
    "C04": "the validators ClipEvaluation._check_clips_match / _check_matches, AnnotationProject._annotations_are_part_of_the_project and Clip._validate_times",
    "C05": "the nine per-type functions of compute_geometric_features and its dispatch table, the nine converters and the dispatch of geometry_to_shapely, and compute_bounds",
    "C16": "get_dim_range and get_coord_index",
    "C17": "crop_dim (with get_dim_range)",
    "C20": "get_coord_index (the vertex-to-bin lookup of rasterize)",
    "C07": "the loop of match_geometries that turns the selected pairs into the reported (source, target, affinity) triples (the affinity matrix and the pairs chosen by the assignment step are its parameters)",
    "C10": "convert_geometry_to_bbox and convert_time_to_sample of the crowsetta export",
    "C08": "iterate_over_valid_clips (which clips are evaluated, and with which annotation)",
    "C09": "iterate_over_valid_clips (which clips are evaluated, and with which annotation)",
    "C13": "_compute_similarity_matrix (the pairs on which the comparison function is queried and the row/column bookkeeping of the sparse adjacency matrix) and group_sound_events itself (the matrix handed to connected_components, the one-pass grouping by label through the defaultdict, read as the log of its insertions; the comparison function and scipy's connected_components are parameters of the generated definitions, so the theorems hold for every behaviour of either)",
    "C18": "the statements of RecordingAdapter.assemble_aoef and assemble_soundevent that compute the path handed to the returned object (relative_to on write, join on read; self.audio_dir and obj.path are the parameters; pathlib itself is the list-of-components model)",
    "C15": "the part of load_clip that decides what is read and what the time axis says (backward slice on the locals handed to load_audio(offset, samples) and create_time_range(start_time, end_time, samplerate): floor(start x sr), floor((end - start) x sr), offset / sr, offset / sr + samples / sr)",
}
for _pid, _what in GEN.items():
    _t, _n, _tech, _ref = CLAIMED[_pid]
    CLAIMED[_pid] = (
        _t + f" In addition {_what} are translated from the Python source into Gallina on every run (coq/Gen/Source.v) and the "
        f"{_pid}_src_* theorems prove, against whatever was generated, that the code as written computes what the model computes "
        "(for all inputs), so a change of these functions breaks a proof obligation and not only the sampled correspondence.",
        _n + " Also trusted: the source translator harness/pygen.py with its interface table and coq/Gen/Prelude.v (meaning of the "
        "Python subset, representation of library objects); a unit it cannot read falls back to the translation of the pinned "
        "tree and is reported as ADVISORY in the evidence (tie = correspondence alone for that unit).",
        _tech + " + model regenerated from source by a fail-closed Python-ast translator (equivalence with the hand model proved)",
        _ref + "; section 10.12",
    )


def main():
    props = [json.loads(l) for l in (VERIF / "properties.jsonl").read_text().splitlines() if l.strip()]
    checks, na = [], []
    for p in props:
        pid = p["id"]
        if pid in CLAIMED:
            text, note, tech, ref = CLAIMED[pid]
            checks.append(
                {
                    "property_id": pid,
                    "quick_cmd": f"./check {pid} --tier quick",
                    "thorough_cmd": f"./check {pid} --tier thorough",
                    "evidence_file": f"/verif/evidence/{pid}.json",
                    "replay_cmd_template": f"./check {pid} --replay {{path}}",
                    "engine": "coq-correspondence",
                    "level_claimed": {"category": "proof", "text": text, "design_ref": ref},
                    "level_note": note,
                    "technique": tech,
                }
            )
        else:
            na.append(
                {
                    "property_id": pid,
                    "reason": NOT_YET.get(
                        pid,
                        "not claimed yet: the Coq model, theorems and correspondence check for this property are "
                        "designed (DESIGN.md section 6) but not built at this commit; the technique applies",
                    ),
                }
            )
    man = {
        "version": 1,
        "setup_cmd": "cd coq && coq_makefile -f _CoqProject -o Makefile && timeout 3000 make -j16",
        "hooks": {
            "guard": "SOUNDEVENT_VERIF",
            "enable": "no source hooks are needed: checks import soundevent from /repo/src and wrap callables from the harness process",
            "baseline_off_cmd": "cd /repo && /venv/bin/python -m pytest -ra -q -p no:cacheprovider --timeout=900 --continue-on-collection-errors",
            "source_commits": [],
            "add_only": True,
        },
        "engines": [
            {
                "name": "coq-correspondence",
                "path": "/verif/check",
                "serves_properties": sorted(CLAIMED),
                "kind_free_text": "Coq 8.16.1 development (coq/), property theorems in coq/Props/Cxx.v re-checked with Print "
                "Assumptions on every run; Gallina model executed by vm_compute against the real implementation on generated "
                "cases; property oracle searches for failing inputs",
            }
        ],
        "checks": checks,
        "notes": "See DESIGN.md. known_findings.json lists recorded findings and fixed defects.",
        "not_applicable": na,
    }
    (VERIF / "MANIFEST.json").write_text(json.dumps(man, indent=1) + "\n")


if __name__ == "__main__":
    main()
