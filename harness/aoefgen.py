"""Random object graphs for the AOEF properties: every collection type, every optional field present or absent, shared
and distinct sub-objects, users that appear only as note author / badge owner / recording owner, tags that appear only
in predictions / project / evaluation tag lists, nested sequence parents, sound events of other recordings than the
clip's, every geometry type.  Everything is derived from one `random.Random`, so a case {root, seed, knobs} replays."""
from __future__ import annotations

import datetime
import random
import uuid as uuidlib

from . import geomgen as G

LABELS = ["species", "call_type", "snr", "quality", "énergie", "dur ms", "f0", "sex", "taxon", "taxon:genus", "dwc:scientificName", "a/b", "a"]
VALUES = ["Myotis myotis", "feeding buzz", "x", "social", "ß", "", "long value with spaces", "genus:Myotis", "Myotis", "b/c", "b:c"]
# pairs of distinct tags whose naive "label<sep>value" renderings coincide
COLLIDING = [(("taxon", "genus:Myotis"), ("taxon:genus", "Myotis")), (("a/b", "c"), ("a", "b/c")), (("a", "b c"), ("a b", "c")),
             (("species", ""), ("", "species")), (("a", "b:c"), ("a:b", "c"))]
NAMES = ["ana", "Björn", "c d", "ei", "fu"]
T0 = datetime.datetime(2023, 5, 17, 8, 30, 15)


class Graph:
    def __init__(self, rng: random.Random, audio_root="/data/audio", simple_terms=True, size=1.0, outside=0.0, names=None):
        from soundevent import data

        self.d = data
        self.rng = rng
        self.audio_root = audio_root
        self.simple = simple_terms
        self.size = size
        self.outside = outside
        self.names = names
        self.n = 0
        r = rng
        self.users = [self.user() for _ in range(r.randint(1, 4))]
        self.tags = [self.tag(i) for i in range(r.randint(1, 6))]
        if r.random() < 0.3:  # two different tags that a careless key (joined string, value only, label only) would confuse
            (l1, v1), (l2, v2) = r.choice(COLLIDING)
            if l1 and l2:
                self.tags += [self.d.Tag(term=self.term(l1), value=v1), self.d.Tag(term=self.term(l2), value=v2)]
        if r.random() < 0.2 and self.tags:  # same label, different value / same value, different label
            t = r.choice(self.tags)
            self.tags += [self.d.Tag(term=t.term, value=t.value + "'"), self.d.Tag(term=self.term(r.choice(LABELS)), value=t.value)]
            r.shuffle(self.tags)
        self.notes = [self.note() for _ in range(r.randint(0, 4))]
        self.recs = [self.recording(i) for i in range(self.k(1, 3))]
        self.clips = [self.clip() for _ in range(self.k(1, 4))]
        self.ses = [self.sound_event() for _ in range(self.k(0, 7))]
        self.seqs = []
        for _ in range(self.k(0, 4)):
            self.seqs.append(self.sequence())

    # ------------------------------------------------------------------ helpers
    def k(self, lo, hi):
        return self.rng.randint(lo, max(lo, int(round(hi * self.size))))

    def uuid(self):
        self.n += 1
        return uuidlib.UUID(int=self.rng.getrandbits(96) << 32 | self.n)

    def maybe(self, v, p=0.5):
        return v if self.rng.random() < p else None

    def when(self):
        r = self.rng
        return T0 + datetime.timedelta(days=r.randint(0, 400), seconds=r.randint(0, 86399), microseconds=r.choice([0, 0, 250000, 123456]))

    def fnum(self):
        r = self.rng
        return r.choice([0.0, 1.0, 0.5, 0.1, 1.3, 2.75, 1e-3, 12345.678, -3.25, 1 / 3, 7.0])

    def score(self):
        return self.rng.choice([0.0, 1.0, 0.5, 0.1, 0.25, 0.9, 1 / 3, 0.999])

    def sub(self, pool, lo=0, hi=3):
        if not pool:
            return []
        n = self.rng.randint(lo, min(hi, len(pool)))
        return self.rng.sample(pool, n)

    def term(self, label):
        if self.simple:
            return self.d.term_from_key(label)
        return self.d.Term(label=label, name=f"ns:{label}", definition=f"definition of {label}", uri=self.maybe("http://x/" + label.replace(" ", "_")))

    def features(self, hi=3):
        labs = self.rng.sample(LABELS, self.rng.randint(0, hi))
        return [self.d.Feature(term=self.term(l), value=self.fnum()) for l in labs]

    # ------------------------------------------------------------------ objects
    def user(self):
        r = self.rng
        nm = r.choice(NAMES)
        return self.d.User(uuid=self.uuid(), username=self.maybe(nm + str(r.randint(0, 99))), email=self.maybe(f"u{r.randint(0, 999)}@example.org"),
                           name=self.maybe(nm.title() + " X"), institution=self.maybe("Inst " + nm))

    def tag(self, i):
        r = self.rng
        return self.d.Tag(term=self.term(r.choice(LABELS)), value=r.choice(VALUES) + (str(i) if r.random() < 0.7 else ""))

    def note(self):
        r = self.rng
        return self.d.Note(uuid=self.uuid(), message=r.choice(["check this", "", "ünïcode ✓", "two\nlines"]), created_by=self.maybe(r.choice(self.users), 0.6),
                           is_issue=r.random() < 0.4, created_on=self.when())

    def path(self, i):
        r = self.rng
        if self.names:
            return self.names[i % len(self.names)]
        depth = r.randint(0, 3)
        parts = [r.choice(["site A", "2023", "dé", "x.y", "rec"]) for _ in range(depth)]
        fname = r.choice(["a.wav", "b c.wav", "ñandú.wav", "r.flac", "noext"])
        root = self.audio_root if r.random() >= self.outside else "/elsewhere/audio"
        return "/".join([root] + parts + [f"{i}_{fname}"])

    def recording(self, i):
        r = self.rng
        return self.d.Recording(
            uuid=self.uuid(), path=self.path(i), duration=r.choice([1.0, 10.5, 0.1, 3600.0, 2.0000001]), channels=r.choice([1, 2, 4]),
            samplerate=r.choice([8000, 44100, 384000, 22050]), time_expansion=r.choice([1.0, 1.0, 10.0, 0.5, 1.0000001]),
            hash=self.maybe("%032x" % r.getrandbits(128)), date=self.maybe(datetime.date(2020 + r.randint(0, 4), r.randint(1, 12), r.randint(1, 28))),
            time=self.maybe(datetime.time(r.randint(0, 23), r.randint(0, 59), r.randint(0, 59), r.choice([0, 0, 500000]))),
            latitude=self.maybe(r.choice([0.0, -33.45, 51.5074, 90.0])), longitude=self.maybe(r.choice([0.0, -70.66, 179.999, -180.0])),
            license=self.maybe(r.choice(["CC-BY-4.0", "CC0", "proprietary ©"])), owners=self.sub(self.users, 0, 2), rights=self.maybe("all rights reserved"),
            tags=self.sub(self.tags, 0, 3), features=self.features(), notes=self.sub(self.notes, 0, 2))

    def clip(self):
        r = self.rng
        a = r.choice([0.0, 0.5, 1.0, 0.1])
        return self.d.Clip(uuid=self.uuid(), recording=r.choice(self.recs), start_time=a, end_time=a + r.choice([0.0, 0.5, 1.0, 0.3]), features=self.features(2))

    def sound_event(self):
        r = self.rng
        g = G.build(G.rgeom(r, None, 4, 4000, holes=r.random() < 0.3))
        return self.d.SoundEvent(uuid=self.uuid(), geometry=g, recording=r.choice(self.recs), features=self.features(2))

    def sequence(self):
        r = self.rng
        parent = None
        if r.random() < 0.5:
            # a parent that is either an already known sequence or one that is referenced from nowhere else
            parent = r.choice(self.seqs) if (self.seqs and r.random() < 0.6) else self.d.Sequence(
                uuid=self.uuid(), sound_events=self.sub(self.ses, 0, 2), features=self.features(1),
                parent=self.maybe(r.choice(self.seqs), 0.5) if self.seqs else None)
        return self.d.Sequence(uuid=self.uuid(), sound_events=self.sub(self.ses, 0, 4), features=self.features(2), parent=parent)

    def sea(self, se=None):
        r = self.rng
        se = se or (r.choice(self.ses) if self.ses and r.random() < 0.7 else self.sound_event())
        return self.d.SoundEventAnnotation(uuid=self.uuid(), sound_event=se, notes=self.sub(self.notes, 0, 2), tags=self.sub(self.tags, 0, 3),
                                           created_by=self.maybe(r.choice(self.users), 0.5), created_on=self.when())

    def seqa(self):
        r = self.rng
        sq = r.choice(self.seqs) if self.seqs and r.random() < 0.7 else self.sequence()
        return self.d.SequenceAnnotation(uuid=self.uuid(), sequence=sq, notes=self.sub(self.notes, 0, 1), tags=self.sub(self.tags, 0, 2),
                                         created_by=self.maybe(r.choice(self.users), 0.5), created_on=self.when())

    def clip_annotation(self, clip=None, seas=None):
        r = self.rng
        seas = seas if seas is not None else [self.sea() for _ in range(self.k(0, 3))]
        return self.d.ClipAnnotation(uuid=self.uuid(), clip=clip or r.choice(self.clips), sound_events=seas,
                                     sequences=[self.seqa() for _ in range(self.k(0, 2))], tags=self.sub(self.tags, 0, 2), notes=self.sub(self.notes, 0, 2),
                                     created_on=self.when())

    def ptags(self, hi=3):
        return [self.d.PredictedTag(tag=t, score=self.score()) for t in self.sub(self.tags, 0, hi)]

    def sep(self, se=None):
        r = self.rng
        se = se or (r.choice(self.ses) if self.ses and r.random() < 0.7 else self.sound_event())
        return self.d.SoundEventPrediction(uuid=self.uuid(), sound_event=se, score=self.score(), tags=self.ptags())

    def seqp(self):
        r = self.rng
        sq = r.choice(self.seqs) if self.seqs and r.random() < 0.7 else self.sequence()
        return self.d.SequencePrediction(uuid=self.uuid(), sequence=sq, score=self.score(), tags=self.ptags(2))

    def clip_prediction(self, clip=None, seps=None):
        r = self.rng
        seps = seps if seps is not None else [self.sep() for _ in range(self.k(0, 3))]
        return self.d.ClipPrediction(uuid=self.uuid(), clip=clip or r.choice(self.clips), sound_events=seps,
                                     sequences=[self.seqp() for _ in range(self.k(0, 2))], tags=self.ptags(2), features=self.features(2))

    def task(self, clip):
        r = self.rng
        badges = [self.d.StatusBadge(state=r.choice(list(self.d.AnnotationState)), owner=self.maybe(r.choice(self.users), 0.6), created_on=self.when())
                  for _ in range(r.randint(0, 3))]
        return self.d.AnnotationTask(uuid=self.uuid(), clip=clip, status_badges=badges, created_on=self.when())

    def clip_evaluation(self):
        r = self.rng
        clip = r.choice(self.clips)
        seas = [self.sea() for _ in range(self.k(0, 3))]
        seps = [self.sep() for _ in range(self.k(0, 3))]
        ca = self.clip_annotation(clip, seas)
        cp = self.clip_prediction(clip, seps)
        a, p = list(seas), list(seps)
        r.shuffle(a)
        r.shuffle(p)
        ms = []
        while a or p:
            if a and p and r.random() < 0.6:
                s, t = p.pop(), a.pop()
            elif a and (not p or r.random() < 0.5):
                s, t = None, a.pop()
            else:
                s, t = p.pop(), None
            ms.append(self.d.Match(uuid=self.uuid(), source=s, target=t, affinity=self.score() if (s and t) else 0.0,
                                   score=self.maybe(self.score()), metrics=self.features(2)))
        return self.d.ClipEvaluation(uuid=self.uuid(), annotations=ca, predictions=cp, matches=ms, metrics=self.features(2), score=self.maybe(self.score()))

    # ------------------------------------------------------------------ roots
    def root(self, name):
        r, d = self.rng, self.d
        if name == "RecordingSet":
            return d.RecordingSet(uuid=self.uuid(), recordings=self.sub(self.recs, 0, 3) if r.random() < 0.3 else list(self.recs), created_on=self.when())
        if name == "Dataset":
            return d.Dataset(uuid=self.uuid(), recordings=list(self.recs), created_on=self.when(), name=r.choice(["ds", "My Dataset ✓"]),
                             description=self.maybe("a description"))
        if name in ("AnnotationSet", "AnnotationProject", "EvaluationSet"):
            cas = [self.clip_annotation() for _ in range(self.k(0, 3))]
            if name == "AnnotationSet":
                return d.AnnotationSet(uuid=self.uuid(), clip_annotations=cas, created_on=self.when())
            if name == "AnnotationProject":
                clips = []
                for ca in cas:
                    if ca.clip not in clips:
                        clips.append(ca.clip)
                # tasks for every annotated clip (validator) and sometimes for clips nobody annotated yet
                extra = [c for c in self.clips if c not in clips and r.random() < 0.5]
                if r.random() < 0.3:
                    extra.append(self.clip())
                tasks = [self.task(c) for c in clips + extra]
                r.shuffle(tasks)
                return d.AnnotationProject(uuid=self.uuid(), clip_annotations=cas, created_on=self.when(), name="proj", description=self.maybe("desc"),
                                           instructions=self.maybe("do this\nthen that"), annotation_tags=self.sub(self.tags, 0, 4), tasks=tasks)
            return d.EvaluationSet(uuid=self.uuid(), clip_annotations=cas, created_on=self.when(), name="eval set", description=self.maybe("desc"),
                                   evaluation_tags=self.sub(self.tags, 0, 4))
        if name in ("PredictionSet", "ModelRun"):
            cps = [self.clip_prediction() for _ in range(self.k(0, 3))]
            if name == "PredictionSet":
                return d.PredictionSet(uuid=self.uuid(), clip_predictions=cps, created_on=self.when())
            return d.ModelRun(uuid=self.uuid(), clip_predictions=cps, created_on=self.when(), name="model", version=self.maybe("1.2.3"), description=self.maybe("desc"))
        if name == "Evaluation":
            ces = [self.clip_evaluation() for _ in range(self.k(0, 3))]
            return d.Evaluation(uuid=self.uuid(), created_on=self.when(), evaluation_task=r.choice(["sound_event_detection", "clip_classification"]),
                                clip_evaluations=ces, metrics=self.features(3), score=self.maybe(self.score()))
        raise KeyError(name)


def build_case(case: dict):
    """case -> (root object, Graph)"""
    rng = random.Random(case["seed"])
    g = Graph(rng, audio_root=case.get("audio_root", "/data/audio"), simple_terms=case.get("simple_terms", True), size=case.get("size", 1.0),
              outside=case.get("outside", 0.0), names=case.get("names"))
    return g.root(case["root"]), g
