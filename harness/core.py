"""Shared machinery of the /verif checks.

One check run =
  1. (re)build the Coq development (full .vo build, `make`), gate-grep it,
  2. re-compile Props/<id>.v and parse every `Print Assumptions`,
  3. run the correspondence: real implementation (imported from /repo/src) and the
     Gallina model (`vm_compute` inside coqc) on the same generated cases,
  4. run the property oracle on every case (search aid, never a proof),
  5. apply the failure protocol, write evidence/<id>.json.
"""
from __future__ import annotations

import concurrent.futures as cf
import hashlib
import json
import os
import random
import re
import shutil
import signal
import subprocess
import sys
import time
import traceback
from fractions import Fraction
from pathlib import Path

VERIF = Path(__file__).resolve().parent.parent
COQ = VERIF / "coq"
BUILD = VERIF / "build"
REPO = Path(os.environ.get("VERIF_REPO", "/repo"))
REPO_SRC = REPO / "src"

ALLOWED_AXIOMS: set[str] = set()  # no axiom is accepted unless listed in DESIGN.md section 4

FORBIDDEN = re.compile(
    r"\b(Admitted|admit|Axiom|Axioms|Parameter|Parameters|Conjecture|Conjectures|Admit Obligations|"
    r"Unset Guard Checking|Unset Positivity Checking|Unset Universe Checking|bypass_check|"
    r"native_compute|type-in-type|impredicative-set)\b"
)


# ----------------------------------------------------------------------------------------
# implementation import (always /repo/src)
# ----------------------------------------------------------------------------------------
def import_impl():
    os.environ.setdefault("PYTHONHASHSEED", "0")
    os.environ["SOUNDEVENT_VERIF"] = "1"
    src = str(REPO_SRC)
    if src in sys.path:
        sys.path.remove(src)
    sys.path.insert(0, src)
    import soundevent  # noqa

    f = os.path.realpath(soundevent.__file__)
    if not f.startswith(os.path.realpath(src)):
        raise RuntimeError(f"soundevent imported from {f}, expected under {src}")
    return soundevent


# ----------------------------------------------------------------------------------------
# exception classes
# ----------------------------------------------------------------------------------------
class CaseTimeout(Exception):
    pass


def errclass(exc: BaseException) -> str:
    """Map a Python exception to the model's errclass constructor name."""
    try:
        from pydantic import ValidationError
    except Exception:  # pragma: no cover
        ValidationError = ()  # type: ignore
    if isinstance(exc, CaseTimeout):
        return "ETimeout"
    if ValidationError and isinstance(exc, ValidationError):
        return "EValidation"
    if isinstance(exc, KeyError):
        return "EKey"
    if isinstance(exc, NotImplementedError):
        return "ENotImpl"
    if isinstance(exc, ValueError):
        return "EValue"
    if isinstance(exc, TypeError):
        return "EType"
    return "EOther"


def _alarm(signum, frame):
    raise CaseTimeout()


def guarded(fn, *a, timeout=20, **k):
    """Run fn; return ('ok', value) or ('err', errclass-name, message)."""
    old = signal.signal(signal.SIGALRM, _alarm)
    signal.alarm(timeout)
    try:
        v = fn(*a, **k)
        return ("ok", v)
    except CaseTimeout as e:
        return ("err", "ETimeout", "timeout")
    except Exception as e:  # noqa
        return ("err", errclass(e), f"{type(e).__name__}: {str(e)[:200]}")
    finally:
        signal.alarm(0)
        signal.signal(signal.SIGALRM, old)


# ----------------------------------------------------------------------------------------
# Coq literals
# ----------------------------------------------------------------------------------------
def F(x) -> Fraction:
    if isinstance(x, Fraction):
        return x
    if isinstance(x, bool):
        return Fraction(int(x))
    if isinstance(x, int):
        return Fraction(x)
    if isinstance(x, float):
        if x != x or x in (float("inf"), float("-inf")):
            raise ValueError("non-finite float has no Q literal")
        return Fraction(x)
    try:
        import numpy as np

        if isinstance(x, np.generic):
            return F(x.item())
    except ImportError:  # pragma: no cover
        pass
    if isinstance(x, str):
        return Fraction(x)
    raise TypeError(f"cannot convert {type(x)} to Fraction")


def qlit(x) -> str:
    f = F(x)
    n, d = f.numerator, f.denominator
    ns = f"({n})" if n < 0 else f"{n}"
    return f"({ns} # {d})"


def zlit(n: int) -> str:
    n = int(n)
    return f"({n})%Z"


def natlit(n: int) -> str:
    n = int(n)
    assert 0 <= n < 5000, "nat literal too large"
    return f"{n}%nat"


def blit(b) -> str:
    return "true" if b else "false"


def optlit(x, f) -> str:
    return "None" if x is None else f"(Some {f(x)})"


def listlit(xs, f) -> str:
    return "[" + "; ".join(f(x) for x in xs) + "]"


def pairlit(a: str, b: str) -> str:
    return f"({a}, {b})"


def strlit(s: str) -> str:
    # Coq string literal: double the quotes; only printable ASCII expected here
    assert all(32 <= ord(c) < 127 for c in s), "non-ascii in Coq string literal"
    return '"' + s.replace('"', '""') + '"%string'


# ----------------------------------------------------------------------------------------
# JSON with Fractions
# ----------------------------------------------------------------------------------------
class _Enc(json.JSONEncoder):
    def default(self, o):
        if isinstance(o, Fraction):
            return {"$q": f"{o.numerator}/{o.denominator}"}
        if isinstance(o, (set, frozenset)):
            return sorted(o)
        if isinstance(o, tuple):
            return list(o)
        if isinstance(o, Path):
            return str(o)
        try:
            import numpy as np

            if isinstance(o, np.generic):
                return o.item()
            if isinstance(o, np.ndarray):
                return o.tolist()
        except ImportError:  # pragma: no cover
            pass
        return repr(o)


def _hook(d):
    if len(d) == 1 and "$q" in d:
        return Fraction(d["$q"])
    return d


def jdump(o, **k) -> str:
    return json.dumps(o, cls=_Enc, **k)


def jload(s: str):
    return json.loads(s, object_hook=_hook)


def canon_hash(o) -> str:
    return hashlib.sha1(jdump(o, sort_keys=True).encode()).hexdigest()


# ----------------------------------------------------------------------------------------
# Coq build / props / cases
# ----------------------------------------------------------------------------------------
def sh(cmd, cwd=None, timeout=1800):
    p = subprocess.run(
        cmd, cwd=cwd, shell=isinstance(cmd, str), capture_output=True, text=True, timeout=timeout
    )
    return p.returncode, p.stdout + p.stderr


def grep_gate() -> list[str]:
    """Fail-closed textual gate over the whole development."""
    hits = []
    for p in sorted(COQ.rglob("*.v")):
        txt = p.read_text()
        # strip comments (non-nested is enough for our sources; nested handled by loop)
        prev = None
        while prev != txt:
            prev = txt
            txt = re.sub(r"\(\*[^()]*?\*\)", " ", txt, flags=re.S)
            txt = re.sub(r"\(\*(?:(?!\(\*|\*\)).)*\*\)", " ", txt, flags=re.S)
        for i, line in enumerate(txt.splitlines(), 1):
            if FORBIDDEN.search(line):
                hits.append(f"{p.relative_to(COQ)}:{i}: {line.strip()[:120]}")
    return hits


GEN_REPORT: dict = {}


def ensure_build() -> tuple[bool, str]:
    """Full .vo build of the development (no -vos/-vok)."""
    BUILD.mkdir(exist_ok=True)
    if not (COQ / "Makefile").exists() or (COQ / "_CoqProject").stat().st_mtime > (COQ / "Makefile").stat().st_mtime:
        rc, out = sh("coq_makefile -f _CoqProject -o Makefile", cwd=COQ, timeout=120)
        if rc != 0:
            return False, out
    import fcntl

    BUILD.mkdir(exist_ok=True)
    with open(BUILD / ".lock", "w") as lk:
        fcntl.flock(lk, fcntl.LOCK_EX)
        # Aoef/Schema.v is generated from the schema table of harness/aoef.py (rewritten only when it changes)
        from . import aoef as _aoef

        try:
            from . import aoef_extract as _ext

            txt = _aoef.gen_schema_v(_ext.extract_all(REPO_SRC))
        except Exception:  # translator cannot read the adapters: the AOEF checks report it (inventory); keep the library buildable
            txt = _aoef.gen_schema_v()
        sp = COQ / "Aoef" / "Schema.v"
        if not sp.exists() or sp.read_text() != txt:
            sp.write_text(txt)
        # Gen/Source.v is translated from the Python sources on every run (harness/pygen.py)
        global GEN_REPORT
        try:
            from . import pygen as _pygen

            gtxt, GEN_REPORT = _pygen.generate(REPO_SRC)
            gp = COQ / "Gen" / "Source.v"
            if not gp.exists() or gp.read_text() != gtxt:
                gp.write_text(gtxt)
        except Exception as ex:  # the translator itself failed: keep the last Source.v, say so
            GEN_REPORT = {"units": {}, "error": f"{type(ex).__name__}: {ex}"}
        rc, out = sh("timeout 3000 make -k -j16", cwd=COQ, timeout=3100)
    return rc == 0, out[-4000:]


GEN_UNITS = {  # property -> units of Gen/Source.v its source-level theorems are about
    "C03": [f"{c}_validate" for c in ("TimeStamp", "TimeInterval", "Point", "LineString", "Polygon", "BoundingBox", "MultiPoint", "MultiLineString", "MultiPolygon")] + ["MAX_FREQUENCY"],
    "C06": ["compute_affinity_in_time", "compute_affinity_area_tail", "TIME_GEOMETRY_TYPES", "BUFFER_GEOMETRY_TYPES", "geometry_to_shapely", "compute_bounds_py"],
    "C11": ["buffer_timestamp", "buffer_interval", "buffer_bounding_box_geometry", "buffer_geometry", "MAX_FREQUENCY"],
    "C12": ["intervals_overlap", "have_temporal_overlap", "have_frequency_overlap", "is_in_clip", "geometry_to_shapely", "compute_bounds_py"],
    "C14": ["segment_clip"],
    "C19": ["classification_encoding", "multilabel_encoding", "prediction_encoding"],
    "C04": ["ClipEvaluation__check_clips_match", "ClipEvaluation__check_matches", "AnnotationProject__annotations_are_part_of_the_project", "Clip__validate_times"],
    "C05": ["compute_geometric_features", "geometry_to_shapely", "compute_bounds_py"],
    "C16": ["get_dim_range", "get_coord_index"],
    "C17": ["get_dim_range", "crop_dim"],
    "C20": ["get_coord_index"],
    "C07": ["match_geometries_tail"],
    "C10": ["convert_geometry_to_bbox", "convert_time_to_sample"],
    "C08": ["iterate_over_valid_clips"],
    "C09": ["iterate_over_valid_clips"],
    "C13": ["compute_similarity_matrix", "group_sound_events"],
    "C18": ["recording_save_path", "recording_load_path"],
    "C15": ["load_clip_plan"],
}


def gen_assumptions(pid: str) -> list[str]:
    """what the source translator could and could not read, for the evidence file"""
    units = GEN_UNITS.get(pid)
    if not units:
        return []
    rep = GEN_REPORT.get("units", {})
    out = []
    if GEN_REPORT.get("error"):
        out.append(f"source translator failed ({GEN_REPORT['error']}): Gen/Source.v is the last generated one; the tie is the correspondence alone")
    done = [u for u in units if rep.get(u) == "translated"]
    bad = {u: rep.get(u, "not generated") for u in units if rep.get(u) != "translated"}
    out.append("Gen/Source.v regenerated from /repo/src by harness/pygen.py; translated from source and covered by the Cxx_src_* theorems: " + ", ".join(done))
    for u, why in bad.items():
        out.append(f"ADVISORY: {u} could not be read by the translator ({why}); it is defined as the hand-written model, so for it the tie to the code is the correspondence alone")
    return out


def compile_props(pid: str) -> dict:
    """Fresh coqc of Props/<pid>.v; parse Print Assumptions output."""
    src = COQ / "Props" / f"{pid}.v"
    res = {"file": str(src.relative_to(VERIF)), "theorems": [], "ok": False, "log": ""}
    if not src.exists():
        res["log"] = "missing props file"
        return res
    text = src.read_text()
    declared = re.findall(r"^\s*(?:Theorem|Lemma|Corollary|Example)\s+([A-Za-z0-9_']+)", text, flags=re.M)
    printed = re.findall(r"^\s*Print Assumptions\s+([A-Za-z0-9_']+)\s*\.", text, flags=re.M)
    out_dir = BUILD / "props"
    out_dir.mkdir(parents=True, exist_ok=True)
    tmp = out_dir / f"{pid}.v"
    shutil.copy(src, tmp)
    rc, out = sh(f"timeout 900 coqc -Q {COQ} SE -o {out_dir}/{pid}.vo {tmp}", cwd=COQ, timeout=1000)
    res["log"] = out[-3000:]
    if rc != 0:
        res["failed_compile"] = True
        # locate the failing theorem by the reported line
        m = re.search(r"line (\d+)", out)
        if m:
            ln = int(m.group(1))
            upto = "\n".join(text.splitlines()[:ln])
            names = re.findall(r"(?:Theorem|Lemma|Corollary|Example)\s+([A-Za-z0-9_']+)", upto)
            res["failing_theorem"] = names[-1] if names else None
        return res
    # split output per Print Assumptions, in order
    blocks = re.split(r"(?=Closed under the global context|Axioms:)", out)
    blocks = [b for b in blocks if b.startswith("Closed under") or b.startswith("Axioms:")]
    thms = []
    ok = len(blocks) == len(printed) and set(declared) <= set(printed)
    for name, blk in zip(printed, blocks):
        if blk.startswith("Closed under"):
            thms.append({"name": name, "assumptions": []})
        else:
            axs = re.findall(r"^([A-Za-z0-9_.']+)\s*:", blk, flags=re.M)
            thms.append({"name": name, "assumptions": axs})
            if not set(axs) <= ALLOWED_AXIOMS:
                ok = False
    res["theorems"] = thms
    res["declared"] = declared
    res["ok"] = ok and len(thms) > 0
    if not ok and not res.get("failed_compile"):
        res["log"] += f"\nprinted={len(printed)} blocks={len(blocks)} declared={len(declared)}"
    return res


CASE_CHUNK = 300
MAX_CASE_BYTES = 1_500_000


def _coqc_file(path: Path) -> tuple[Path, int, str]:
    rc, out = sh(f"timeout 900 coqc -Q {COQ} SE {path.name}", cwd=path.parent, timeout=1000)
    return path, rc, out


def run_coq_bools(pid: str, imports: list[str], exprs: list[str], prelude: str = "", chunk: int = CASE_CHUNK) -> tuple[list[int], list[str]]:
    """Evaluate each expression (type bool) with vm_compute; return indices that are not `true`,
    plus infrastructure error messages (non-empty => the correspondence could not be evaluated)."""
    d = BUILD / "cases" / pid
    if d.exists():
        shutil.rmtree(d)
    d.mkdir(parents=True)
    files = []
    # chunks of at most `chunk` cases and at most MAX_CASE_BYTES of literals (large literals cost coqc gigabytes)
    bounds, start, size = [], 0, 0
    for i, e in enumerate(exprs):
        if i > start and (i - start >= chunk or size + len(e) > MAX_CASE_BYTES):
            bounds.append((start, i))
            start, size = i, 0
        size += len(e)
    if exprs:
        bounds.append((start, len(exprs)))
    for fi, (ci, cj) in enumerate(bounds):
        part = exprs[ci:cj]
        p = d / f"{pid}_{fi:04d}.v"
        with open(p, "w") as fh:
            fh.write("From SE Require Import Base.Num Base.Res.\n")
            for imp in imports:
                fh.write(f"From SE Require Import {imp}.\n")
            fh.write("Open Scope Q_scope.\n")
            fh.write(prelude + "\n")
            fh.write("Definition cases : list bool := [\n")
            fh.write(";\n".join(part))
            fh.write("\n].\nDefinition bad := find_bad 0 cases.\nEval vm_compute in bad.\n")
        files.append((ci, p))
    bad: list[int] = []
    errors: list[str] = []
    with cf.ThreadPoolExecutor(max_workers=16) as ex:
        futs = {ex.submit(_coqc_file, p): ci for ci, p in files}
        for fut in cf.as_completed(futs):
            ci = futs[fut]
            p, rc, out = fut.result()
            if rc != 0:
                errors.append(f"{p.name}: coqc failed: {out[-1500:]}")
                continue
            m = re.search(r"=\s*(\[[^\]]*\])\s*:\s*list nat", out, flags=re.S)
            if not m:
                errors.append(f"{p.name}: cannot parse: {out[-500:]}")
                continue
            body = m.group(1).strip()[1:-1].strip()
            if body:
                for tok in body.split(";"):
                    bad.append(ci + int(tok.strip().replace("%nat", "")))
    # clean compiled artefacts, keep sources for inspection
    for ext in ("*.vo", "*.vok", "*.vos", "*.glob", ".*.aux"):
        for f in d.glob(ext):
            f.unlink()
    return sorted(bad), errors


def coq_eval(pid: str, imports: list[str], exprs: list[str], prelude: str = "") -> list[str]:
    """Evaluate arbitrary expressions and return the printed text of each (for replays)."""
    d = BUILD / "cases" / pid
    d.mkdir(parents=True, exist_ok=True)
    p = d / f"{pid}_show.v"
    with open(p, "w") as fh:
        fh.write("From SE Require Import Base.Num Base.Res.\n")
        for imp in imports:
            fh.write(f"From SE Require Import {imp}.\n")
        fh.write("Open Scope Q_scope.\n" + prelude + "\n")
        for e in exprs:
            fh.write(f"Eval vm_compute in ({e}).\n")
    _, rc, out = _coqc_file(p)
    if rc != 0:
        return [f"coqc failed: {out[-800:]}"] * len(exprs)
    parts = re.split(r"^\s*=\s", out, flags=re.M)[1:]
    parts = [re.sub(r"\s+", " ", x).strip()[:1500] for x in parts]
    while len(parts) < len(exprs):
        parts.append("?")
    return parts


# ----------------------------------------------------------------------------------------
# known findings
# ----------------------------------------------------------------------------------------
def load_findings() -> list[dict]:
    p = VERIF / "known_findings.json"
    if not p.exists():
        return []
    return json.loads(p.read_text()).get("findings", [])


def match_finding(pid: str, failure: dict, findings: list[dict]) -> dict | None:
    for f in findings:
        if f.get("status") != "known":
            continue  # "fixed" entries suppress nothing
        if f["property"] != pid or f["kind"] != failure.get("kind"):
            continue
        ok = True
        for k, allowed in f.get("match", {}).items():
            v = failure.get("attrs", {}).get(k)
            if isinstance(allowed, list):
                if v not in allowed:
                    ok = False
            elif isinstance(allowed, dict):
                if "max" in allowed and not (v is not None and v <= allowed["max"]):
                    ok = False
                if "min" in allowed and not (v is not None and v >= allowed["min"]):
                    ok = False
            elif v != allowed:
                ok = False
        if ok:
            return f
    return None


# ----------------------------------------------------------------------------------------
# the check driver
# ----------------------------------------------------------------------------------------
TRUSTED_BASE_COMMON = [
    "Coq 8.16.1 kernel + vm_compute (no native_compute); full .vo build; coqchk in thorough tier",
    "no axioms: every property theorem must print 'Closed under the global context'",
    "hand-written Gallina model = my reading of the Python source (modelled, not verified); tied to /repo/src by the correspondence run of this check (differential testing on generated inputs)",
    "IEEE-754 rounding is not modelled: proofs are over Q; stream A inputs are dyadic so the implementation computes exactly and must agree exactly",
    "Python harness: generators, canonicalisation, Q-literal emitter, coqc output parser",
]


class Prop:
    """Base class of the per-property modules (harness/props/Cxx.py)."""

    ID = "C00"
    IMPORTS: list[str] = []
    PRELUDE = ""
    RULE = ""
    TRUSTED: list[str] = []
    ASSUMPTIONS: list[str] = []
    SEARCH_BUDGET = {"quick": 2000, "thorough": 20000}
    CHUNK = CASE_CHUNK  # cases per generated .v file (smaller for properties with large literals)

    def setup(self, tier: str):
        pass

    def teardown(self):
        pass

    def cases(self, rng: random.Random, tier: str) -> list[dict]:
        raise NotImplementedError

    def search_cases(self, rng: random.Random, n: int) -> list[dict]:
        """Fresh cases for the failing-input search (default: same generator)."""
        out = []
        while len(out) < n:
            got = self.cases(rng, "quick")
            if not got:
                break
            out.extend(got)
        return out[:n]

    def run(self, case: dict) -> dict:
        raise NotImplementedError

    def agree(self, case: dict, obs: dict) -> str | None:
        """Coq bool expression: model agrees with observation. None => case not comparable."""
        raise NotImplementedError

    def show(self, case: dict) -> str | None:
        return None

    def oracle(self, case: dict, obs: dict) -> list[dict]:
        return []

    def nontrivial(self, case: dict, obs: dict) -> bool:
        return True

    def tags(self, case: dict, obs: dict) -> list[str]:
        return [case.get("kind", "case")]

    def corpus(self) -> list[dict]:
        d = VERIF / "corpus" / self.ID
        out = []
        if d.exists():
            for p in sorted(d.glob("*.json")):
                c = jload(p.read_text())
                if isinstance(c, list):
                    out.extend(c)
                else:
                    out.append(c)
        return out


def write_replay(pid: str, seed: int, payload: dict, suffix="") -> str:
    d = VERIF / "replays"
    d.mkdir(exist_ok=True)
    p = d / f"{pid}_{seed}{suffix}.json"
    p.write_text(jdump(payload, indent=1))
    return str(p)


def run_check(prop: Prop, tier: str, seed: int) -> int:
    t0 = time.time()
    pid = prop.ID
    lines: list[str] = []
    violations = 0
    known_hits: dict[str, int] = {}
    findings = load_findings()
    for old in (VERIF / "replays").glob(f"{pid}_*.json"):
        old.unlink()
    proof_broken = None  # description
    corr_broken = None

    # 1. build + gate ----------------------------------------------------------------
    ok, log = ensure_build()
    gate = grep_gate()
    if gate:
        proof_broken = {"what": "forbidden construct in development", "hits": gate[:20]}

    # 2. property theorems ------------------------------------------------------------
    pr = compile_props(pid)
    obligations = len(pr.get("declared", [])) or len(pr.get("theorems", []))
    discharged = len([t for t in pr.get("theorems", []) if set(t["assumptions"]) <= ALLOWED_AXIOMS]) if pr["ok"] else 0
    build_note = None
    if not ok:
        # some file of the development does not compile.  Props/<pid>.v was compiled afresh against the .vo files:
        # it fails exactly when something it depends on is missing or out of date (Coq checks the digests), so the
        # failure concerns this property only in that case; otherwise it is recorded in the evidence and no more.
        failing = sorted(set(re.findall(r"File \"\./([A-Za-z0-9_/]+\.v)\"[^\n]*\n(?:[^\n]*\n)?Error", log)))
        build_note = {"what": "a file of the development outside this property's dependencies does not build", "files": failing}
    if not pr["ok"] and proof_broken is None:
        proof_broken = {
            "what": "property theorems do not check" if ok else "development does not build (a file the property theorems depend on)",
            "theorem": pr.get("failing_theorem"),
            "file": pr.get("file"),
            "log": pr.get("log", "")[-1500:],
        }

    # 3. correspondence ---------------------------------------------------------------
    import_impl()
    prop.setup(tier)
    rng = random.Random(seed)
    try:
        cases = prop.corpus() + prop.cases(rng, tier)
        obs_list = []
        for c in cases:
            try:
                obs_list.append(prop.run(c))
            except Exception as e:  # harness-level failure: treat as observation
                obs_list.append({"harness_error": f"{type(e).__name__}: {e}", "tb": traceback.format_exc()[-800:]})
        exprs, idx_map = [], []
        skipped = 0
        for i, (c, o) in enumerate(zip(cases, obs_list)):
            if "harness_error" in o:
                e = "false"
            else:
                try:
                    e = prop.agree(c, o)
                except Exception as ex:  # an observation the emitter cannot express = disagreement
                    o["agree_error"] = f"{type(ex).__name__}: {ex}"
                    e = "false"
            if e is None:
                skipped += 1
                continue
            exprs.append(e)
            idx_map.append(i)
        bad, errors = run_coq_bools(pid, prop.IMPORTS, exprs, prop.PRELUDE, getattr(prop, "CHUNK", CASE_CHUNK))
        bad_cases = [idx_map[b] for b in bad]
        if errors:
            corr_broken = {"what": "correspondence could not be evaluated", "errors": errors[:3]}
        elif bad_cases:
            corr_broken = {"what": "model and implementation differ", "n": len(bad_cases)}

        # 4. oracle on every case ------------------------------------------------------
        oracle_fail: list[tuple[int, dict]] = []
        for i, (c, o) in enumerate(zip(cases, obs_list)):
            if "harness_error" in o:
                continue
            try:
                fs = prop.oracle(c, o)
            except Exception as ex:
                fs = [{"kind": "oracle-exception", "what": f"oracle could not read the observation: {type(ex).__name__}: {ex}", "attrs": {}}]
            for f in fs:
                oracle_fail.append((i, f))

        # distribution ----------------------------------------------------------------
        hist: dict[str, int] = {}
        seen, nontriv = set(), 0
        for c, o in zip(cases, obs_list):
            try:
                tg = prop.tags(c, o) if "harness_error" not in o else ["harness_error"]
            except Exception:
                tg = ["untaggable"]
            for t in tg:
                hist[t] = hist.get(t, 0) + 1
            h = canon_hash(c)
            if h not in seen:
                seen.add(h)
                try:
                    if "harness_error" not in o and prop.nontrivial(c, o):
                        nontriv += 1
                except Exception:
                    pass

        # 5. failure protocol ----------------------------------------------------------
        unknown = []
        known_case_idx = set()
        for i, f in oracle_fail:
            kf = match_finding(pid, f, findings)
            if kf is not None:
                known_hits[kf["id"]] = known_hits.get(kf["id"], 0) + 1
                known_case_idx.add(i)
            else:
                unknown.append((i, f))
        # a model/implementation difference on a case that exhibits a recorded known finding is that finding, not a new one
        if corr_broken and corr_broken.get("what") == "model and implementation differ":
            bad_cases = [i for i in bad_cases if i not in known_case_idx]
            corr_broken = {"what": "model and implementation differ", "n": len(bad_cases)} if bad_cases else None

        search_done = 0
        if (proof_broken or corr_broken) and not unknown:
            # the oracle already ran on every case of this run; spend a fresh search budget
            budget = prop.SEARCH_BUDGET.get(tier, 2000)
            srng = random.Random(seed + 7919)
            for c in prop.search_cases(srng, budget):
                try:
                    o = prop.run(c)
                except Exception:
                    continue
                search_done += 1
                try:
                    fs = prop.oracle(c, o)
                except Exception:
                    fs = []
                fs = [f for f in fs if match_finding(pid, f, findings) is None]
                if fs:
                    cases.append(c)
                    obs_list.append(o)
                    for f in fs:
                        oracle_fail.append((len(cases) - 1, f))
                        unknown.append((len(cases) - 1, f))
                    break

        for kid, n in sorted(known_hits.items()):
            kf = next(f for f in findings if f["id"] == kid)
            lines.append(f"KNOWN-FINDING: property={pid} {kf['what']} [{kid}; {n} case(s) this run]")

        if unknown:
            # smallest failing case first
            unknown.sort(key=lambda t: len(jdump(cases[t[0]])))
            i, f = unknown[0]
            shown = []
            sh_e = prop.show(cases[i])
            if sh_e:
                shown = coq_eval(pid, prop.IMPORTS, [sh_e], prop.PRELUDE)
            path = write_replay(
                pid,
                seed,
                {
                    "property": pid,
                    "kind": "failing-input",
                    "failure": f,
                    "case": cases[i],
                    "implementation_observed": obs_list[i],
                    "model_answer": shown,
                    "other_failures": len(unknown) - 1,
                    "proof_broken": proof_broken,
                    "correspondence_broken": corr_broken,
                    "replay": f"./check {pid} --replay <this file>",
                },
            )
            lines.append(f"VIOLATION property={pid} replay={path}")
            violations = len(unknown)
        elif proof_broken or corr_broken:
            detail = {
                "property": pid,
                "kind": "no-failing-input-found",
                "proof_broken": proof_broken,
                "correspondence_broken": corr_broken,
                "searched": search_done + len(cases),
            }
            if bad_cases:
                sample = bad_cases[:5]
                shown = []
                exprs_s = [prop.show(cases[i]) for i in sample]
                if all(exprs_s):
                    shown = coq_eval(pid, prop.IMPORTS, exprs_s, prop.PRELUDE)
                detail["differing_cases"] = [
                    {"case": cases[i], "implementation_observed": obs_list[i], "model_answer": (shown[k] if k < len(shown) else None)}
                    for k, i in enumerate(sample)
                ]
            path = write_replay(pid, seed, detail, "_unproved")
            lines.append(f"VIOLATION property={pid} replay={path} no-failing-input-found")
            violations = max(1, len(bad_cases))
    finally:
        prop.teardown()

    # coqchk in thorough tier ------------------------------------------------------------
    coqchk_note = None
    if tier == "thorough" and ok and pr["ok"]:
        rc, out = sh(
            f"timeout 1500 coqchk -silent -o -Q {COQ} SE -Q {BUILD}/props '' {pid}", cwd=BUILD / "props", timeout=1600
        )
        tail = out[-1500:]
        coqchk_note = {"rc": rc, "tail": tail}
        if rc != 0:
            path = write_replay(pid, seed, {"property": pid, "kind": "no-failing-input-found", "coqchk": tail}, "_coqchk")
            lines.append(f"VIOLATION property={pid} replay={path} no-failing-input-found")
            violations += 1

    # evidence ---------------------------------------------------------------------------
    samples = []
    for c, o in list(zip(cases, obs_list))[:: max(1, len(cases) // 4)][:4]:
        samples.append({"case": c, "implementation_observed": o})
    ev = {
        "property_id": pid,
        "tier": tier,
        "seed": seed,
        "level": "proof",
        "coverage": {
            "obligations": obligations,
            "discharged": discharged,
            "checker_cmd": f"make -C coq (full .vo) && coqc -Q coq SE coq/Props/{pid}.v  [Print Assumptions parsed]"
            + ("; coqchk -o" if tier == "thorough" else ""),
            "trusted_base": TRUSTED_BASE_COMMON + prop.TRUSTED,
            "theorems": pr.get("theorems", []),
            "evaluations": len(cases),
            "compared_with_model": len(exprs),
            "not_comparable": skipped,
            "model_disagreements": len(bad_cases),
            "distinct_nontrivial": nontriv,
            "rule": prop.RULE,
            "distribution": dict(sorted(hist.items())),
            "oracle_failures": len(oracle_fail),
            "known_finding_hits": known_hits,
            "search_cases_after_break": search_done,
            "samples": json.loads(jdump(samples)),
            "coqchk": coqchk_note,
        },
        "assumptions": prop.ASSUMPTIONS + gen_assumptions(pid) + ([f"build: {build_note}"] if build_note else []),
        "wall_s": round(time.time() - t0, 2),
        "violations": violations,
    }
    (VERIF / "evidence").mkdir(exist_ok=True)
    (VERIF / "evidence" / f"{pid}.json").write_text(json.dumps(ev, indent=1))
    for l in lines:
        print(l)
    print(
        f"[{pid}] tier={tier} seed={seed} theorems={discharged}/{obligations} cases={len(cases)} "
        f"compared={len(exprs)} disagreements={len(bad_cases)} oracle_failures={len(oracle_fail)} "
        f"violations={violations} wall={ev['wall_s']}s"
    )
    return 1 if violations else 0


def run_replay(prop: Prop, path: str) -> int:
    import_impl()
    data = jload(Path(path).read_text())
    prop.setup("quick")
    try:
        cs = []
        if "case" in data:
            cs.append(data["case"])
        for dct in data.get("differing_cases", []):
            cs.append(dct["case"])
        rc = 0
        for c in cs:
            o = prop.run(c)
            fs = prop.oracle(c, o)
            print("case:", jdump(c))
            print("implementation:", jdump(o))
            print("oracle:", jdump(fs) if fs else "property holds on this input")
            e = prop.agree(c, o)
            if e is not None:
                bad, errs = run_coq_bools(prop.ID + "_replay", prop.IMPORTS, [e], prop.PRELUDE)
                print("model agrees:", not bad and not errs)
                if bad or errs:
                    rc = 1
            if fs:
                rc = 1
        return rc
    finally:
        prop.teardown()
