"""Mechanical mutation analysis of the checks: small AST mutations of the code each property is anchored in; a mutant that
still passes the repository's test-suite is run against the property's quick check.  Mutants that survive both are listed
for manual inspection (equivalent mutant, outside the property, or a gap in the check).

usage: mutate.py Cxx [max_mutants] [seed]        (writes /verif/build/mutation/Cxx.json)"""
from __future__ import annotations

import ast
import copy
import json
import os
import random
import re
import shutil
import subprocess
import sys
from pathlib import Path

VERIF = Path("/verif")
REPO = Path("/repo")
DESELECT = [
    "tests/test_audio/test_audio.py::test_can_load_clip_from_24_bit_depth_wav",
    "tests/test_audio/test_io.py::test_audio_to_bytes",
    "tests/test_audio/test_media_info.py::test_can_read_media_info",
    "tests/test_audio/test_audio.py::test_read_clip",
]


class Site:
    def __init__(self, kind, node_id, desc):
        self.kind, self.node_id, self.desc = kind, node_id, desc


CMP = {ast.Lt: ast.LtE, ast.LtE: ast.Lt, ast.Gt: ast.GtE, ast.GtE: ast.Gt, ast.Eq: ast.NotEq, ast.NotEq: ast.Eq,
       ast.Is: ast.IsNot, ast.IsNot: ast.Is, ast.In: ast.NotIn, ast.NotIn: ast.In}
BIN = {ast.Add: ast.Sub, ast.Sub: ast.Add, ast.Mult: ast.Add, ast.Div: ast.Mult, ast.FloorDiv: ast.Div}
NAMES = {"max": "min", "min": "max", "floor": "ceil", "ceil": "floor", "any": "all", "all": "any"}
ATTRS = {"start_time": "end_time", "end_time": "start_time", "onset": "offset", "offset": "onset", "low_freq": "high_freq", "high_freq": "low_freq",
         "source": "target", "target": "source", "annotations": "predictions", "predictions": "annotations"}


def functions_of(tree, names):
    out = []
    for n in ast.walk(tree):
        if isinstance(n, (ast.FunctionDef, ast.AsyncFunctionDef)) and (not names or n.name in names):
            out.append(n)
    return out


def enumerate_sites(tree, fn_names):
    """(index of node in ast.walk order, mutation kind, description)"""
    sites = []
    scope_nodes = set()
    for fn in functions_of(tree, fn_names):
        for n in ast.walk(fn):
            scope_nodes.add(id(n))
    for i, n in enumerate(ast.walk(tree)):
        if id(n) not in scope_nodes:
            continue
        ln = getattr(n, "lineno", 0)
        if isinstance(n, ast.Compare) and len(n.ops) == 1 and type(n.ops[0]) in CMP:
            sites.append((i, "cmp", f"L{ln}: {ast.unparse(n)[:60]}  [{type(n.ops[0]).__name__}->{CMP[type(n.ops[0])].__name__}]"))
        elif isinstance(n, ast.BinOp) and type(n.op) in BIN:
            sites.append((i, "bin", f"L{ln}: {ast.unparse(n)[:60]}  [{type(n.op).__name__}->{BIN[type(n.op)].__name__}]"))
        elif isinstance(n, ast.BoolOp):
            sites.append((i, "bool", f"L{ln}: {ast.unparse(n)[:60]}  [and<->or]"))
        elif isinstance(n, ast.UnaryOp) and isinstance(n.op, ast.Not):
            sites.append((i, "not", f"L{ln}: {ast.unparse(n)[:60]}  [drop not]"))
        elif isinstance(n, ast.Constant) and isinstance(n.value, bool):
            sites.append((i, "boolconst", f"L{ln}: {n.value} -> {not n.value}"))
        elif isinstance(n, ast.Constant) and isinstance(n.value, int) and not isinstance(n.value, bool) and abs(n.value) <= 3:
            sites.append((i, "int+", f"L{ln}: {n.value} -> {n.value + 1}"))
            if n.value != 0:
                sites.append((i, "int-", f"L{ln}: {n.value} -> {n.value - 1}"))
        elif isinstance(n, ast.Name) and n.id in NAMES and isinstance(n.ctx, ast.Load):
            sites.append((i, "name", f"L{ln}: {n.id} -> {NAMES[n.id]}"))
        elif isinstance(n, ast.If) and not n.orelse:
            sites.append((i, "if-true", f"L{ln}: if {ast.unparse(n.test)[:50]}  [condition -> False (branch dropped)]"))
        elif isinstance(n, ast.Slice) and (n.upper is not None or n.lower is not None):
            if n.upper is not None:
                sites.append((i, "slice-upper", f"L{getattr(n.upper, 'lineno', ln)}: slice upper bound {ast.unparse(n.upper)[:30]} -> -1"))
            if n.lower is not None:
                sites.append((i, "slice-lower", f"L{getattr(n.lower, 'lineno', ln)}: slice lower bound {ast.unparse(n.lower)[:30]} -> +1"))
        elif isinstance(n, ast.Call) and len(n.args) == 2 and not n.keywords and not any(isinstance(a, ast.Starred) for a in n.args) \
                and ast.unparse(n.args[0]) != ast.unparse(n.args[1]):
            sites.append((i, "argswap", f"L{ln}: {ast.unparse(n)[:60]}  [arguments swapped]"))
        elif isinstance(n, ast.Call) and isinstance(n.func, ast.Name) and n.func.id in ("sorted", "reversed", "abs", "float", "int") and len(n.args) >= 1:
            sites.append((i, "unwrap", f"L{ln}: {ast.unparse(n)[:60]}  [{n.func.id}(x) -> x]"))
        elif isinstance(n, ast.Attribute) and isinstance(n.ctx, ast.Load) and n.attr in ATTRS:
            sites.append((i, "attr", f"L{ln}: .{n.attr} -> .{ATTRS[n.attr]}"))
        elif isinstance(n, ast.Continue):
            sites.append((i, "continue", f"L{ln}: continue -> pass"))
        elif isinstance(n, ast.Break):
            sites.append((i, "break", f"L{ln}: break -> pass"))
    return sites


def apply(tree, idx, kind):
    t = copy.deepcopy(tree)
    for i, n in enumerate(ast.walk(t)):
        if i != idx:
            continue
        if kind == "cmp":
            n.ops = [CMP[type(n.ops[0])]()]
        elif kind == "bin":
            n.op = BIN[type(n.op)]()
        elif kind == "bool":
            n.op = ast.Or() if isinstance(n.op, ast.And) else ast.And()
        elif kind == "not":
            # replace `not x` by `x`: mutate in place by turning into UnaryOp(UAdd)? simpler: double negation removed via bool()
            new = ast.Call(func=ast.Name(id="bool", ctx=ast.Load()), args=[n.operand], keywords=[])
            n.__class__ = ast.Call
            n.__dict__.clear()
            n.__dict__.update(new.__dict__)
        elif kind == "boolconst":
            n.value = not n.value
        elif kind == "int+":
            n.value = n.value + 1
        elif kind == "int-":
            n.value = n.value - 1
        elif kind == "name":
            n.id = NAMES[n.id]
        elif kind == "if-true":
            n.test = ast.Constant(value=False)
        elif kind == "slice-upper":
            n.upper = ast.BinOp(left=n.upper, op=ast.Sub(), right=ast.Constant(value=1))
        elif kind == "slice-lower":
            n.lower = ast.BinOp(left=n.lower, op=ast.Add(), right=ast.Constant(value=1))
        elif kind == "argswap":
            n.args = [n.args[1], n.args[0]]
        elif kind == "unwrap":
            new = n.args[0]
            n.__class__ = new.__class__
            n.__dict__.clear()
            n.__dict__.update(new.__dict__)
        elif kind == "attr":
            n.attr = ATTRS[n.attr]
        elif kind in ("continue", "break"):
            n.__class__ = ast.Pass
        break
    ast.fix_missing_locations(t)
    return ast.unparse(t)


TARGETS = {
    "C01": {"io/aoef/recording.py": [], "io/aoef/clip.py": [], "io/aoef/sound_event.py": [], "io/aoef/sequence.py": [], "io/aoef/sound_event_annotation.py": [],
            "io/aoef/clip_annotations.py": [], "io/aoef/annotation_task.py": [], "io/aoef/match.py": [], "io/aoef/clip_evaluation.py": [], "io/aoef/note.py": [],
            "io/aoef/evaluation.py": ["to_aoef", "to_soundevent"], "io/aoef/annotation_set.py": ["to_aoef", "to_soundevent"]},
    "C02": {"io/aoef/adapters.py": ["to_aoef", "get_id", "values"], "io/aoef/tag.py": [], "io/aoef/sequence.py": ["assemble_aoef"],
            "io/aoef/annotation_project.py": ["to_aoef"], "io/aoef/prediction_set.py": ["to_aoef"], "io/aoef/sequence_prediction.py": ["assemble_aoef"]},
    "C03": {"data/geometries.py": []},
    "C04": {"data/clip_evaluations.py": [], "data/matches.py": ["_validate_match"], "data/annotation_projects.py": [], "data/clips.py": ["_validate_times"]},
    "C05": {"geometry/features.py": [], "geometry/operations.py": ["compute_bounds", "get_geometry_point"], "geometry/conversion.py": []},
    "C06": {"evaluation/affinity.py": []},
    "C07": {"evaluation/match.py": []},
    "C08": {"evaluation/tasks/sound_event_detection.py": [], "evaluation/tasks/common.py": []},
    "C09": {"evaluation/metrics.py": [], "evaluation/tasks/clip_classification.py": [], "evaluation/tasks/clip_multilabel_classification.py": [],
            "evaluation/tasks/sound_event_classification.py": []},
    "C10": {"io/crowsetta/segment.py": [], "io/crowsetta/bbox.py": [], "io/crowsetta/labels.py": [], "io/crowsetta/sequence.py": []},
    "C11": {"geometry/operations.py": ["buffer_timestamp", "buffer_interval", "buffer_bounding_box_geometry", "buffer_geometry", "buffer_shapely_geometry"]},
    "C12": {"geometry/operations.py": ["intervals_overlap", "have_temporal_overlap", "have_frequency_overlap", "is_in_clip"]},
    "C13": {"geometry/operations.py": ["group_sound_events", "_compute_similarity_matrix"]},
    "C14": {"operations.py": ["segment_clip"]},
    "C15": {"audio/io.py": ["load_clip", "load_recording", "load_audio"], "audio/operations.py": ["resample"], "audio/spectrograms.py": ["compute_spectrogram"]},
    "C16": {"arrays/dimensions.py": ["create_range_dim", "get_coord_index", "create_time_range", "create_frequency_range", "get_dim_range"],
            "arrays/operations.py": ["set_value_at_pos"]},
    "C17": {"arrays/operations.py": ["crop_dim", "extend_dim", "extend_dim_width", "crop_dim_width", "adjust_dim_width"], "arrays/dimensions.py": ["get_dim_step", "estimate_dim_step"]},
    "C18": {"io/aoef/recording.py": ["assemble_aoef", "assemble_soundevent"], "io/aoef/__init__.py": ["to_aeof", "to_soundevent", "save", "load"]},
    "C19": {"evaluation/encoding.py": [], "data/tags.py": ["__hash__"], "data/terms.py": ["__hash__"], "data/features.py": ["__hash__"]},
    "C20": {"geometry/operations.py": ["rasterize"], "arrays/dimensions.py": ["get_coord_index"]},
}


def sh(cmd, cwd=None, env=None, timeout=900):
    try:
        p = subprocess.run(cmd, cwd=cwd, env=env, shell=True, capture_output=True, text=True, timeout=timeout)
        return p.returncode, (p.stdout + p.stderr)
    except subprocess.TimeoutExpired:
        return 124, "timeout"


def main():
    pid = sys.argv[1]
    nmax = int(sys.argv[2]) if len(sys.argv) > 2 else 25
    seed = int(sys.argv[3]) if len(sys.argv) > 3 else 1
    rng = random.Random(seed)
    wt = Path(f"/tmp/mut/{pid}")
    if wt.exists():
        sh(f"git -C {REPO} worktree remove --force {wt}")
        shutil.rmtree(wt, ignore_errors=True)
    wt.parent.mkdir(parents=True, exist_ok=True)
    rc, out = sh(f"git -C {REPO} worktree add --detach {wt} HEAD")
    assert rc == 0, out
    cands = []
    for rel, fns in TARGETS[pid].items():
        f = wt / "src" / "soundevent" / rel
        tree = ast.parse(f.read_text())
        for idx, kind, desc in enumerate_sites(tree, fns):
            cands.append((rel, idx, kind, desc))
    only = os.environ.get("MUT_KINDS")
    if only:
        cands = [c for c in cands if c[2] in only.split(",")]
    rng.shuffle(cands)
    cands = cands[:nmax]
    results = []
    desel = " ".join(f"--deselect {d}" for d in DESELECT)
    env = dict(os.environ, PYTHONHASHSEED="0", SOUNDEVENT_VERIF="1")
    for k, (rel, idx, kind, desc) in enumerate(cands):
        f = wt / "src" / "soundevent" / rel
        orig = f.read_text()
        try:
            mutated = apply(ast.parse(orig), idx, kind)
        except Exception as e:
            continue
        f.write_text(mutated)
        e2 = dict(env, PYTHONPATH=str(wt / "src"))
        rc, out = sh(f"/venv/bin/python -m pytest -q -x -p no:cacheprovider --timeout=300 {desel} 2>&1 | tail -3", cwd=wt, env=e2, timeout=900)
        suite_pass = bool(re.search(r"\b\d+ passed", out)) and not re.search(r"\bfailed\b|\berror", out)
        rec = {"file": rel, "kind": kind, "site": desc, "suite": "pass" if suite_pass else "killed"}
        if suite_pass:
            e3 = dict(e2, VERIF_REPO=str(wt))
            rc2, out2 = sh(f"/venv/bin/python -W ignore harness/main.py {pid} --tier quick 2>&1 | grep -v KNOWN-FINDING | tail -2", cwd=VERIF, env=e3, timeout=1800)
            last = out2.strip().splitlines()[-1] if out2.strip() else ""
            rec["check"] = "VIOLATION" if "VIOLATION" in out2 else ("ok" if "violations=0" in last else "error")
            rec["check_line"] = last[:200]
            rec["no_input"] = "no-failing-input-found" in out2
        results.append(rec)
        f.write_text(orig)
        print(k, rec["suite"], rec.get("check", "-"), desc[:90], flush=True)
    sh(f"git -C {REPO} worktree remove --force {wt}")
    outd = VERIF / "build" / "mutation"
    outd.mkdir(parents=True, exist_ok=True)
    (outd / f"{pid}{os.environ.get('MUT_TAG', '')}.json").write_text(json.dumps(results, indent=1))
    surv = [r for r in results if r["suite"] == "pass"]
    print(f"{pid}: {len(results)} mutants, {len(surv)} pass the suite, {sum(r.get('check') == 'VIOLATION' for r in surv)} caught by the check, "
          f"{sum(r.get('check') == 'ok' for r in surv)} survive both")


if __name__ == "__main__":
    main()
