#!/bin/bash
# Regression of the checks against everything recorded under seeded/: every seeded change must be reported by the check of
# its property (exit 1), every behaviour-preserving refactoring must pass (exit 0).  /repo must be clean; it is restored after
# each run.  usage: harness/regress.sh [seeds|neutral|all]
cd /verif
what=${1:-all}
git -C /repo status --short | grep -q . && { echo "/repo is dirty"; exit 2; }
bad=0
if [ "$what" != neutral ]; then
  for d in seeded/C??  seeded/C??_r?; do
    [ -f $d/patch.diff ] || continue
    pid=$(basename $d | cut -c1-3)
    git -C /repo apply /verif/$d/patch.diff 2>/dev/null || { echo "$d: patch does not apply"; bad=1; continue; }
    ./check $pid > build/regress_$(basename $d).log 2>&1; rc=$?
    git -C /repo checkout -- .; git -C /repo clean -fdq -- src
    want=1; [ "$(basename $d)" = C07_r4 ] && want=0      # judged outside the stated properties (see its meta.json)
    if [ $rc -ne $want ]; then echo "REGRESSION $d: check $pid exit $rc, expected $want"; bad=1; else echo "ok  $d ($pid exit $rc)"; fi
  done
fi
if [ "$what" != seeds ]; then
  declare -A REL=( [N1]="C01 C02 C18 C04" [N2]="C03 C05 C11 C12 C13 C20 C06 C07" [N3]="C06 C07 C08 C09 C19" [N4]="C14 C15 C16 C17 C20" [N5]="C10 C04 C19" [N6]="C15 C16 C17 C20 C19 C08 C09" [N7]="C04 C05 C06 C07 C11 C12 C01" )
  for k in N1 N2 N3 N4 N5 N6 N7; do
    git -C /repo apply /verif/seeded/neutral/$k.diff || { echo "$k: patch does not apply"; bad=1; continue; }
    for c in ${REL[$k]}; do
      ./check $c > build/regress_${k}_$c.log 2>&1; rc=$?
      if [ $rc -ne 0 ]; then echo "FALSE ALARM $k vs $c (exit $rc): $(grep ^VIOLATION build/regress_${k}_$c.log | head -1 | cut -c1-160)"; bad=1; else echo "ok  $k vs $c"; fi
    done
    git -C /repo checkout -- .; git -C /repo clean -fdq -- src
  done
fi
exit $bad
