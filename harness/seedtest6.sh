#!/bin/bash
# usage: harness/seedtest6.sh <worktree name under /tmp/seed> <Cxx> [suffix]  — round-6 variant of seedtest.sh: also reports what the source
# translator makes of the change (units unreadable / proofs broken) before running the check
n=$1; pid=$2; suf=${3:-_r6}
wt=/tmp/seed/$n; out=/verif/seeded/$pid$suf; mkdir -p $out
cd $wt || exit 2
git diff -- src > $out/patch.diff; [ -s $out/patch.diff ] || { echo "NO PATCH"; exit 2; }
cp $wt/demo_$pid.py $out/ 2>/dev/null
suite=$(PYTHONPATH=$wt/src /venv/bin/python -m pytest -q -p no:cacheprovider --timeout=900 2>&1 | tail -1); echo "suite: $suite"
PYTHONPATH=$wt/src /venv/bin/python -W ignore demo_$pid.py > $out/demo_with.log 2>&1; dw=$?
git apply -R $out/patch.diff; PYTHONPATH=$wt/src /venv/bin/python -W ignore demo_$pid.py > $out/demo_without.log 2>&1; dwo=$?; git apply $out/patch.diff
echo "demo_with_rc=$dw demo_without_rc=$dwo"
cd /verif
g=$(harness/gentest.sh seeded/$pid$suf/patch.diff 2>&1 | grep -v condarc | cut -c1-300); echo "translator: $g"
git -C /repo apply $out/patch.diff || exit 4
./check $pid > $out/check_$pid.log 2>&1; rc=$?
grep -E "^VIOLATION" $out/check_$pid.log | head -2 | cut -c1-200; tail -1 $out/check_$pid.log | cut -c1-200; echo "check_${pid}_rc=$rc"
cp /verif/replays/${pid}_*.json $out/ 2>/dev/null
git -C /repo checkout -- .; git -C /repo clean -fdq -- src
python3 - <<PY
import json
json.dump({"suite": """$suite""".strip("= "), "demo_with_rc": $dw, "demo_without_rc": $dwo, "check_rc": $rc, "translator": """$g"""}, open("$out/result.json","w"), indent=1)
PY
