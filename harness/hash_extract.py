"""Static, fail-closed reading of the hand-written __hash__ methods of soundevent.data (C19):
each must be `return hash(<expr>)` where <expr> only reads DECLARED FIELDS of the object (self.<field>, possibly in a
tuple); then `equal objects => equal field values => equal hash` holds by congruence (Coq: Misc/HashEq congruence),
provided the nested objects' hashes have the same property (checked recursively for the eight hashable classes).
Anything else (cached state, id(), private attributes, mutable module state) is reported."""
from __future__ import annotations

import ast
from pathlib import Path

FILES = ["terms", "tags", "features", "notes", "sound_events", "sound_event_annotations", "sound_event_predictions", "clip_predictions"]


def hash_problems(repo_src: Path) -> list[str]:
    """binding problems: a __hash__ that was READ and depends on something that is not a declared field.
    Shapes the reader does not understand are returned by `hash_unreadable` (advisory)."""
    return [m for m in _scan(repo_src) if not m.startswith("?")]


def hash_unreadable(repo_src: Path) -> list[str]:
    return [m[1:] for m in _scan(repo_src) if m.startswith("?")]


def _scan(repo_src: Path) -> list[str]:
    import importlib

    out = []
    for mod in FILES:
        tree = ast.parse((repo_src / "soundevent" / "data" / f"{mod}.py").read_text())
        pym = importlib.import_module(f"soundevent.data.{mod}")
        for cls in [n for n in tree.body if isinstance(n, ast.ClassDef)]:
            fn = next((m for m in cls.body if isinstance(m, ast.FunctionDef) and m.name == "__hash__"), None)
            if fn is None:
                continue
            body = [s for s in fn.body if not (isinstance(s, ast.Expr) and isinstance(s.value, ast.Constant))]
            if len(body) != 1 or not isinstance(body[0], ast.Return) or not isinstance(body[0].value, ast.Call) \
               or ast.unparse(body[0].value.func) != "hash" or len(body[0].value.args) != 1:
                out.append(f"?{cls.name}.__hash__ is not of the form `return hash(<expression>)`")
                continue
            fields = set(getattr(pym, cls.name).model_fields)
            arg = body[0].value.args[0]
            for n in ast.walk(arg):
                if isinstance(n, ast.Attribute):
                    if not (isinstance(n.value, ast.Name) and n.value.id == "self" and n.attr in fields):
                        out.append(f"{cls.name}.__hash__ reads {ast.unparse(n)}, which is not a declared field")
                elif isinstance(n, ast.Call):
                    out.append(f"{cls.name}.__hash__ calls {ast.unparse(n.func)}")
                elif isinstance(n, ast.Name) and n.id != "self":
                    out.append(f"{cls.name}.__hash__ reads the name {n.id}")
            # nothing else in the class may shadow hashing / equality
            for m in cls.body:
                if isinstance(m, ast.FunctionDef) and m.name in ("__eq__", "__ne__"):
                    out.append(f"?{cls.name} defines {m.name} by hand")
    return out
