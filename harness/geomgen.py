"""Geometry generation shared by several properties.

A geometry case is a JSON-able dict {"type": <soundevent type name>, "coordinates": nested lists of Fractions}.
All coordinates are dyadic rationals (k / 2^m) so that the implementation's float arithmetic
on them is exact (stream A of DESIGN.md section 2).
"""
from __future__ import annotations

import random
from fractions import Fraction

from .core import listlit, pairlit, qlit

TYPES = [
    "TimeStamp",
    "TimeInterval",
    "Point",
    "LineString",
    "Polygon",
    "BoundingBox",
    "MultiPoint",
    "MultiLineString",
    "MultiPolygon",
]
MAXF = 5_000_000


def dy(rng: random.Random, lo: int, hi: int, bits: int = 4) -> Fraction:
    """dyadic rational in [lo, hi] with `bits` fractional bits"""
    k = rng.randint(lo * (1 << bits), hi * (1 << bits))
    return Fraction(k, 1 << bits)


def rtime(rng, tmax=16) -> Fraction:
    r = rng.random()
    if r < 0.08:
        return Fraction(0)
    return dy(rng, 0, tmax, rng.choice([0, 1, 2, 4]))


def rfreq(rng, fmax=64) -> Fraction:
    r = rng.random()
    if r < 0.06:
        return Fraction(0)
    if r < 0.10:
        return Fraction(MAXF)
    if r < 0.14:
        return Fraction(MAXF) - dy(rng, 0, 8, 2)
    return dy(rng, 0, fmax, rng.choice([0, 1, 3]))


def rpoint(rng, tmax=16, fmax=64):
    return [rtime(rng, tmax), rfreq(rng, fmax)]


def _ring_raw(rng, tmax=16, fmax=64, t0=0):
    """a ring around a centre, vertices in angular order"""
    n = rng.randint(3, 6)
    ct, cfq = t0 + dy(rng, 2, max(3, tmax - 2), 2), dy(rng, 8, fmax - 8, 2)
    dirs = [(1, 0), (1, 1), (0, 1), (-1, 1), (-1, 0), (-1, -1), (0, -1), (1, -1)]
    picks = sorted(rng.sample(range(8), n))
    pts = []
    for k in picks:
        dx, dyy = dirs[k]
        rt = Fraction(rng.randint(1, 8), 4)
        rf = Fraction(rng.randint(1, 32), 4)
        pts.append([max(Fraction(0), ct + dx * rt), min(Fraction(MAXF), max(Fraction(0), cfq + dyy * rf))])
    if rng.random() < 0.5:
        pts.append(list(pts[0]))
    return pts


def rring(rng, tmax=16, fmax=64, t0=0):
    """a simple (non-self-intersecting, non-degenerate) ring; validity decided by shapely"""
    import shapely

    for _ in range(200):
        pts = _ring_raw(rng, tmax, fmax, t0)
        poly = shapely.Polygon([(float(a), float(b)) for a, b in pts])
        if poly.is_valid and poly.area > 0:
            return pts
    return [[Fraction(t0 + 1), Fraction(8)], [Fraction(t0 + 2), Fraction(8)], [Fraction(t0 + 2), Fraction(16)]]


def rpoly_holes(rng, t0=0):
    """a rectangle-like shell with 1-2 triangular holes strictly inside (disjoint)"""
    a = Fraction(t0) + dy(rng, 0, 4, 2)
    c = dy(rng, 0, 16, 2)
    w, h = Fraction(rng.randint(8, 16)), Fraction(rng.randint(16, 32))
    shell = [[a, c], [a + w, c], [a + w, c + h], [a, c + h]]
    if rng.random() < 0.5:
        shell.append(list(shell[0]))
    holes = []
    k = rng.randint(1, 2)
    for i in range(k):
        x0 = a + 1 + i * (w / 2)
        y0 = c + 1 + Fraction(rng.randint(0, 4))
        holes.append([[x0, y0], [x0 + 2, y0], [x0 + 1, y0 + Fraction(rng.randint(1, 6))]])
    return [shell] + holes


def rline(rng, forward=None, tmax=16, fmax=64):
    n = rng.randint(2, 5)
    pts = [rpoint(rng, tmax, fmax) for _ in range(n)]
    if forward is True:
        ts = sorted(p[0] for p in pts)
        if ts[0] == ts[-1]:
            ts[-1] = ts[-1] + Fraction(1, 4)
        for p, t in zip(pts, ts):
            p[0] = t
    return pts


def rgeom(rng: random.Random, typ: str | None = None, tmax=16, fmax=64, holes=False) -> dict:
    """a *valid* geometry (as accepted by the validators)"""
    typ = typ or rng.choice(TYPES)
    if typ == "TimeStamp":
        c = rtime(rng, tmax)
    elif typ == "TimeInterval":
        a, b = sorted([rtime(rng, tmax), rtime(rng, tmax)])
        c = [a, b]
    elif typ == "Point":
        c = rpoint(rng, tmax, fmax)
    elif typ == "LineString":
        c = rline(rng, None, tmax, fmax)
    elif typ == "Polygon":
        c = [rring(rng, tmax, fmax)]
        if holes and rng.random() < 0.5:
            c = rpoly_holes(rng)
        if rng.random() < 0.2:
            # a small hole near the shell's first vertex is not guaranteed inside; holes are
            # only used where the consumer tolerates them (bounds use the shell)
            pass
    elif typ == "BoundingBox":
        a, b = sorted([rtime(rng, tmax), rtime(rng, tmax)])
        lo, hi = sorted([rfreq(rng, fmax), rfreq(rng, fmax)])
        c = [a, lo, b, hi]
    elif typ == "MultiPoint":
        c = [rpoint(rng, tmax, fmax) for _ in range(rng.randint(1, 4))]
    elif typ == "MultiLineString":
        c = [rline(rng, True, tmax, fmax) for _ in range(rng.randint(1, 3))]
    elif typ == "MultiPolygon":
        k = rng.randint(1, 3)
        w = max(4, tmax // k)
        # parts live in separate time windows so that the multipolygon is valid (parts do not overlap)
        c = [[rring(rng, w - 1, fmax, t0=i * (w + 5))] for i in range(k)]
        if holes and rng.random() < 0.5:
            c = [rpoly_holes(rng, t0=i * 30) for i in range(k)]
    else:
        raise ValueError(typ)
    return {"type": typ, "coordinates": c}


def to_float(c):
    if isinstance(c, list):
        return [to_float(x) for x in c]
    return float(c)


HISTORY = True  # a third of the geometries handed to the implementation are *derived* objects (see build)


def _shift(c, dt, df):
    if isinstance(c, list):
        if len(c) == 2 and not isinstance(c[0], list):
            return [c[0] + dt, c[1]]
        if len(c) == 4 and not isinstance(c[0], list):
            return [c[0] + dt, c[1], c[2] + dt, c[3]]
        return [_shift(x, dt, df) for x in c]
    return c + dt


def _warm(obj):
    """use an object the way the library does, so that anything it memoises on the instance is in place"""
    from soundevent import geometry as _g
    from soundevent.geometry import operations as _ops

    for fn in (_g.geometry_to_shapely, _g.compute_bounds, lambda o: _ops.buffer_geometry(o, 0.5, 1.0), hash, repr,
               lambda o: _g.get_geometry_point(o, "center"), lambda o: _g.compute_geometric_features(o)):
        try:
            fn(obj)
        except Exception:
            pass


def build(g: dict):
    """construct the real soundevent geometry.

    Objects carry history in real use: a geometry is often obtained from another one that was already used
    (`model_copy(update={"coordinates": ...})`, or assignment to `.coordinates` — the models are not frozen). A third
    of the geometries are therefore built that way: an *ancestor* of the same class with other coordinates is built and
    used (converted, bounds, buffered, hashed), then the wanted coordinates (as validated by a fresh construction) are
    put on a copy / on the object itself. The result has exactly the fields of the fresh geometry, so every property
    must hold for it; the choice is a function of the case (reproducible)."""
    from soundevent import data

    cls = getattr(data, g["type"])
    fresh = cls(coordinates=to_float(g["coordinates"]))
    if not HISTORY:
        return fresh
    import copy
    import hashlib

    h = int(hashlib.sha1(repr((g["type"], g["coordinates"])).encode()).hexdigest(), 16) % 6
    if h > 1:
        return fresh
    try:
        anc = cls(coordinates=to_float(_shift(g["coordinates"], 3, 0)))
    except Exception:
        return fresh
    _warm(anc)
    coords = copy.deepcopy(fresh.coordinates)
    if h == 0:
        out = anc.model_copy(update={"coordinates": coords})
    else:
        anc.coordinates = coords
        out = anc
    assert out == fresh and out.model_dump() == fresh.model_dump()
    return out


def from_impl(geom) -> dict:
    """real geometry -> case dict with exact Fractions"""

    def conv(c):
        if isinstance(c, (list, tuple)):
            return [conv(x) for x in c]
        return Fraction(c)

    return {"type": geom.type, "coordinates": conv(geom.coordinates)}


def _pt(p):
    return pairlit(qlit(p[0]), qlit(p[1]))


def _pts(l):
    return listlit(l, _pt)


def coq_geom(g: dict) -> str:
    """Gallina literal of type geom for a normalised (already validated) geometry"""
    t, c = g["type"], g["coordinates"]
    if t == "TimeStamp":
        return f"(TimeStamp {qlit(c)})"
    if t == "TimeInterval":
        return f"(TimeInterval {qlit(c[0])} {qlit(c[1])})"
    if t == "Point":
        return f"(Point {qlit(c[0])} {qlit(c[1])})"
    if t == "LineString":
        return f"(LineString {_pts(c)})"
    if t == "Polygon":
        return f"(Polygon {listlit(c, _pts)})"
    if t == "BoundingBox":
        return f"(BBox {qlit(c[0])} {qlit(c[1])} {qlit(c[2])} {qlit(c[3])})"
    if t == "MultiPoint":
        return f"(MultiPoint {_pts(c)})"
    if t == "MultiLineString":
        return f"(MultiLineString {listlit(c, _pts)})"
    if t == "MultiPolygon":
        return f"(MultiPolygon {listlit(c, lambda p: listlit(p, _pts))})"
    raise ValueError(t)


def bounds_exact(g: dict):
    """independent exact bounds (start, low, end, high) from the coordinates — oracle side"""
    t, c = g["type"], g["coordinates"]
    if t == "TimeStamp":
        return (c, Fraction(0), c, Fraction(MAXF))
    if t == "TimeInterval":
        return (c[0], Fraction(0), c[1], Fraction(MAXF))
    if t == "BoundingBox":
        return (c[0], c[1], c[2], c[3])

    def flat(x):
        if isinstance(x[0], list):
            for y in x:
                yield from flat(y)
        else:
            yield x

    pts = list(flat(c)) if t != "Point" else [c]
    return (min(p[0] for p in pts), min(p[1] for p in pts), max(p[0] for p in pts), max(p[1] for p in pts))
