"""Shared machinery of the AOEF properties (C01, C02, C18): the schema (our reading of the 26 adapter modules, one
row per field), the object-graph generator, the conversion of real objects / real JSON documents to the generic
nodes / flat records of coq/Aoef/Model.v, and the emitters.

The schema is the single source of coq/Aoef/Schema.v (written by `gen_schema_v`, called from ensure_build) and of the
Python-side conversions, so the two sides cannot drift."""
from __future__ import annotations

import datetime
import enum
import json
import pathlib
import uuid as uuidlib

# ------------------------------------------------------------------------------------------------ schema
# scalar: (data field, document field, codec)     codec: plain | te (1.0 <-> absent) | feat (list <-> dict by label)
#                                                         | path | term (term <-> label)
# kid:    (data field, document field, target class, card, how)   how: ref | inline | scored ([(tag id, score)])
# kids are listed in the evaluation order of the adapter's assemble_aoef (this order decides registration order).
CLASSES = [
    dict(name="User", table="users", key="uuid",
         scalars=[("username", "username", "plain"), ("email", "email", "plain"), ("name", "name", "plain"),
                  ("institution", "institution", "plain")],
         kids=[]),
    dict(name="Tag", table="tags", key="tag",
         scalars=[("term", "key", "term"), ("value", "value", "plain")], kids=[]),
    dict(name="Note", table=None, key="uuid",
         scalars=[("message", "message", "plain"), ("is_issue", "is_issue", "plain"), ("created_on", "created_on", "plain")],
         kids=[("created_by", "created_by", "User", "Opt", "ref")]),
    dict(name="Recording", table="recordings", key="uuid",
         scalars=[("path", "path", "path"), ("duration", "duration", "plain"), ("channels", "channels", "plain"),
                  ("samplerate", "samplerate", "plain"), ("time_expansion", "time_expansion", "te"),
                  ("hash", "hash", "plain"), ("date", "date", "plain"), ("time", "time", "plain"),
                  ("latitude", "latitude", "plain"), ("longitude", "longitude", "plain"),
                  ("license", "license", "plain"), ("rights", "rights", "plain"), ("features", "features", "feat")],
         kids=[("tags", "tags", "Tag", "Many", "ref"), ("notes", "notes", "Note", "Many", "inline"),
               ("owners", "owners", "User", "Many", "ref")]),
    dict(name="Clip", table="clips", key="uuid",
         scalars=[("start_time", "start_time", "plain"), ("end_time", "end_time", "plain"), ("features", "features", "feat")],
         kids=[("recording", "recording", "Recording", "One", "ref")]),
    dict(name="SoundEvent", table="sound_events", key="uuid",
         scalars=[("geometry", "geometry", "plain"), ("features", "features", "feat")],
         kids=[("recording", "recording", "Recording", "One", "ref")]),
    dict(name="Sequence", table="sequences", key="uuid",
         scalars=[("features", "features", "feat")],
         kids=[("parent", "parent", "Sequence", "Opt", "ref"), ("sound_events", "sound_events", "SoundEvent", "Many", "ref")]),
    dict(name="SoundEventAnnotation", table="sound_event_annotations", key="uuid",
         scalars=[("created_on", "created_on", "plain")],
         kids=[("sound_event", "sound_event", "SoundEvent", "One", "ref"), ("notes", "notes", "Note", "Many", "inline"),
               ("tags", "tags", "Tag", "Many", "ref"), ("created_by", "created_by", "User", "Opt", "ref")]),
    dict(name="SequenceAnnotation", table="sequence_annotations", key="uuid",
         scalars=[("created_on", "created_on", "plain")],
         kids=[("sequence", "sequence", "Sequence", "One", "ref"), ("notes", "notes", "Note", "Many", "inline"),
               ("tags", "tags", "Tag", "Many", "ref"), ("created_by", "created_by", "User", "Opt", "ref")]),
    dict(name="ClipAnnotation", table="clip_annotations", key="uuid",
         scalars=[("created_on", "created_on", "plain")],
         kids=[("clip", "clip", "Clip", "One", "ref"), ("tags", "tags", "Tag", "Many", "ref"),
               ("sound_events", "sound_events", "SoundEventAnnotation", "Many", "ref"),
               ("sequences", "sequences", "SequenceAnnotation", "Many", "ref"), ("notes", "notes", "Note", "Many", "inline")]),
    dict(name="PredictedTag", table=None, key="synthetic",
         scalars=[("score", 1, "plain")], kids=[("tag", 0, "Tag", "One", "ref")]),
    dict(name="SoundEventPrediction", table="sound_event_predictions", key="uuid",
         scalars=[("score", "score", "plain")],
         kids=[("sound_event", "sound_event", "SoundEvent", "One", "ref"), ("tags", "tags", "PredictedTag", "Many", "scored")]),
    dict(name="SequencePrediction", table="sequence_predictions", key="uuid",
         scalars=[("score", "score", "plain")],
         kids=[("sequence", "sequence", "Sequence", "One", "ref"), ("tags", "tags", "PredictedTag", "Many", "scored")]),
    dict(name="ClipPrediction", table="clip_predictions", key="uuid",
         scalars=[("features", "features", "feat")],
         kids=[("clip", "clip", "Clip", "One", "ref"), ("sound_events", "sound_events", "SoundEventPrediction", "Many", "ref"),
               ("sequences", "sequences", "SequencePrediction", "Many", "ref"), ("tags", "tags", "PredictedTag", "Many", "scored")]),
    dict(name="StatusBadge", table=None, key="synthetic",
         scalars=[("state", "state", "plain"), ("created_on", "created_on", "plain")],
         kids=[("owner", "owner", "User", "Opt", "ref")]),
    # assemble_aoef first converts the badge owners, then the clip
    dict(name="AnnotationTask", table="tasks", key="uuid",
         scalars=[("created_on", "created_on", "plain")],
         kids=[("status_badges", "status_badges", "StatusBadge", "Many", "inline"), ("clip", "clip", "Clip", "One", "ref")]),
    dict(name="Match", table="matches", key="uuid",
         scalars=[("affinity", "affinity", "plain"), ("score", "score", "plain"), ("metrics", "metrics", "feat")],
         kids=[("source", "source", "SoundEventPrediction", "Opt", "ref"), ("target", "target", "SoundEventAnnotation", "Opt", "ref")]),
    dict(name="ClipEvaluation", table="clip_evaluations", key="uuid",
         scalars=[("metrics", "metrics", "feat"), ("score", "score", "plain")],
         kids=[("annotations", "annotations", "ClipAnnotation", "One", "ref"), ("predictions", "predictions", "ClipPrediction", "One", "ref"),
               ("matches", "matches", "Match", "Many", "ref")]),
]
NCLS = len(CLASSES)
CIDX = {c["name"]: i for i, c in enumerate(CLASSES)}
INLINE = [i for i, c in enumerate(CLASSES) if c["table"] is None]
PSEUDO = ["Note", "PredictedTag", "StatusBadge"]  # loaded right after users and tags

_ANN_TABLES = ["User", "Tag", "Recording", "Clip", "SoundEvent", "SoundEventAnnotation", "Sequence", "SequenceAnnotation"]
_ANN_LOAD = ["User", "Tag", "Recording", "Clip", "SoundEvent", "Sequence", "SoundEventAnnotation", "SequenceAnnotation", "ClipAnnotation"]
_PRED_LOAD = ["Tag", "User", "Recording", "SoundEvent", "Sequence", "Clip", "SoundEventPrediction", "SequencePrediction", "ClipPrediction"]

# roots: scalars as above; kids in the order in which to_aoef converts them; steps = Conv <kid field> | Snap <class>
# in evaluation order (keyword arguments evaluate left to right); a top-level list that is the converted list itself
# (recordings of a recording set, clip_annotations, clip_predictions, tasks) is a snapshot at the point where the
# list is computed.  load = order of the re-registration loops of to_soundevent.
ROOTS = [
    dict(name="RecordingSet", ctype="recording_set",
         scalars=[("created_on", "created_on", "plain")],
         kids=[("recordings", "recordings", "Recording", "Many", "ref")],
         steps=[("Conv", "recordings"), ("Snap", "Recording"), ("Snap", "User"), ("Snap", "Tag")],
         load=["Tag", "User", "Recording"]),
    dict(name="Dataset", ctype="dataset",
         scalars=[("created_on", "created_on", "plain"), ("name", "name", "plain"), ("description", "description", "plain")],
         kids=[("recordings", "recordings", "Recording", "Many", "ref")],
         steps=[("Conv", "recordings"), ("Snap", "Recording"), ("Snap", "User"), ("Snap", "Tag")],
         load=["Tag", "User", "Recording"]),
    dict(name="AnnotationSet", ctype="annotation_set",
         scalars=[("created_on", "created_on", "plain")],
         kids=[("clip_annotations", "clip_annotations", "ClipAnnotation", "Many", "ref")],
         steps=[("Conv", "clip_annotations"), ("Snap", "ClipAnnotation")] + [("Snap", t) for t in _ANN_TABLES],
         load=_ANN_LOAD),
    dict(name="AnnotationProject", ctype="annotation_project",
         scalars=[("created_on", "created_on", "plain"), ("name", "name", "plain"), ("description", "description", "plain"),
                  ("instructions", "instructions", "plain")],
         kids=[("tasks", "tasks", "AnnotationTask", "Many", "ref"), ("annotation_tags", "project_tags", "Tag", "Many", "ref"),
               ("clip_annotations", "clip_annotations", "ClipAnnotation", "Many", "ref")],
         steps=[("Conv", "tasks"), ("Snap", "AnnotationTask"), ("Conv", "annotation_tags"), ("Conv", "clip_annotations"),
                ("Snap", "ClipAnnotation")]
         + [("Snap", t) for t in ["User", "Tag", "Recording", "SoundEvent", "Sequence", "Clip", "SoundEventAnnotation", "SequenceAnnotation"]],
         load=_ANN_LOAD + ["AnnotationTask"]),
    dict(name="EvaluationSet", ctype="evaluation_set",
         scalars=[("created_on", "created_on", "plain"), ("name", "name", "plain"), ("description", "description", "plain")],
         kids=[("clip_annotations", "clip_annotations", "ClipAnnotation", "Many", "ref"),
               ("evaluation_tags", "evaluation_tags", "Tag", "Many", "ref")],
         steps="EVALUATION_SET_STEPS",
         load=_ANN_LOAD),
    dict(name="PredictionSet", ctype="prediction_set",
         scalars=[("created_on", "created_on", "plain")],
         kids=[("clip_predictions", "clip_predictions", "ClipPrediction", "Many", "ref")],
         steps="PREDICTION_SET_STEPS",
         load=_PRED_LOAD),
    dict(name="ModelRun", ctype="model_run",
         scalars=[("created_on", "created_on", "plain"), ("name", "name", "plain"), ("version", "version", "plain"),
                  ("description", "description", "plain")],
         kids=[("clip_predictions", "clip_predictions", "ClipPrediction", "Many", "ref")],
         steps=[("Conv", "clip_predictions"), ("Snap", "ClipPrediction")]
         + [("Snap", t) for t in ["User", "Tag", "Recording", "SoundEvent", "Sequence", "Clip", "SoundEventPrediction", "SequencePrediction"]],
         load=_PRED_LOAD),
    dict(name="Evaluation", ctype="evaluation",
         scalars=[("created_on", "created_on", "plain"), ("evaluation_task", "evaluation_task", "plain"),
                  ("metrics", "metrics", "feat"), ("score", "score", "plain")],
         kids=[("clip_evaluations", "clip_evaluations", "ClipEvaluation", "Many", "ref")],
         steps=[("Conv", "clip_evaluations")]
         + [("Snap", t) for t in ["User", "Tag", "Recording", "SoundEvent", "Sequence", "Clip", "SoundEventAnnotation",
                                  "SequenceAnnotation", "ClipAnnotation", "SoundEventPrediction", "SequencePrediction",
                                  "ClipPrediction", "ClipEvaluation", "Match"]],
         load=["User", "Tag", "Recording", "SoundEvent", "Sequence", "Clip", "SoundEventAnnotation", "SequenceAnnotation",
               "ClipAnnotation", "SoundEventPrediction", "SequencePrediction", "ClipPrediction", "Match", "ClipEvaluation"]),
]
# the two step lists that a defect of the pinned tree concerned (see DESIGN.md, C01/C02): as the repaired code has them
_ES = [("Conv", "clip_annotations"), ("Snap", "ClipAnnotation"), ("Conv", "evaluation_tags")] + [
    ("Snap", t) for t in ["User", "Tag", "Recording", "SoundEvent", "Sequence", "Clip", "SoundEventAnnotation", "SequenceAnnotation"]]
_PS = [("Conv", "clip_predictions"), ("Snap", "ClipPrediction")] + [
    ("Snap", t) for t in ["User", "Tag", "Recording", "Clip", "SoundEvent", "Sequence", "SoundEventPrediction", "SequencePrediction"]]
for r in ROOTS:
    if r["steps"] == "EVALUATION_SET_STEPS":
        r["steps"] = _ES
    if r["steps"] == "PREDICTION_SET_STEPS":
        r["steps"] = _PS
RIDX = {r["name"]: i for i, r in enumerate(ROOTS)}
ROOT_NAMES = [r["name"] for r in ROOTS]


def root_cls(name):
    return NCLS + RIDX[name]


def desc_of(name):
    return CLASSES[CIDX[name]] if name in CIDX else ROOTS[RIDX[name]]


def full_load_order(root, load=None):
    """load order with the inline pseudo-tables placed after users and tags"""
    out, seen = [], set()
    for t in (load if load is not None else root["load"]):
        out.append(t)
        seen.add(t)
        if {"User", "Tag"} <= seen and "Note" not in seen:
            out.extend(PSEUDO)
            seen.update(PSEUDO)
    return out


def gen_schema_v(ex=None) -> str:
    """text of coq/Aoef/Schema.v.  With an extraction `ex` (harness/aoef_extract.extract_all of the current source) the
    written / read masks, the to_aoef steps and the re-registration orders are the EXTRACTED ones, so that the theorems
    `schema_okb current T = true` are re-checked against what the code says now; field order and reference fields come
    from the table (the extraction is compared with it: aoef_extract.differences)."""
    wrm = rdm = None
    if ex is not None:
        from . import aoef_extract as _E

        wrm, rdm = _E.masks(ex)
    L = []
    A = L.append
    A("(* Aoef/Schema.v — GENERATED on every run by harness/aoef.py (gen_schema_v) from the schema table there and from the")
    A("   extraction of /repo/src/soundevent/io/aoef/*.py by harness/aoef_extract.py (masks, steps, load orders); do not edit.")
    A("   One row per adapter: scalar fields written / read, reference fields (target class, cardinality) in the")
    A("   evaluation order of assemble_aoef; one row per collection adapter: conversion / snapshot steps in evaluation")
    A("   order and the re-registration order of to_soundevent (inline pseudo-tables placed after users and tags). *)")
    A("From Coq Require Import List Bool Arith.")
    A("From SE Require Import Aoef.Model.")
    A("Import ListNotations.")
    A("")
    allc = CLASSES + ROOTS
    for i, c in enumerate(allc):
        A(f"Definition c{c['name']} : cls := {i}.")
    A(f"Definition ncls_tables : nat := {NCLS}.")
    A(f"Definition inline_classes : list cls := [{'; '.join('c' + CLASSES[i]['name'] for i in INLINE)}].")
    A("")

    def tbl(name, f, default):
        A(f"Definition {name} (c : cls) :=")
        A("  match c with")
        for i, c in enumerate(allc):
            A(f"  | {i} => {f(c)}")
        A(f"  | _ => {default}")
        A("  end.")
        A("")

    def mask_of(m):
        def f(c):
            bits = m.get(c["name"]) if m is not None else None
            if bits is None:
                bits = [True] * len(c["scalars"])
            return "[" + "; ".join("true" if b else "false" for b in bits) + "]"
        return f

    tbl("cur_wr", mask_of(wrm), "[]")
    tbl("cur_rd", mask_of(rdm), "[]")
    tbl("cur_kidcls", lambda c: "[" + "; ".join("c" + k[2] for k in c["kids"]) + "]", "[]")
    tbl("cur_kidcard", lambda c: "[" + "; ".join(k[3] for k in c["kids"]) + "]", "[]")
    A("Definition current : schema := Schema cur_wr cur_rd cur_kidcls cur_kidcard.")
    A("")
    for r in ROOTS:
        kidx = {k[0]: i for i, k in enumerate(r["kids"])}
        er = ex["roots"].get(r["name"]) if ex is not None else None
        steps = list(er["steps"]) if er is not None else list(r["steps"])
        # the inline objects are embedded where they are used: their pseudo-tables are "emitted" last
        st = "; ".join(f"Conv {kidx[a]}" if k == "Conv" else f"Snap c{a}" for k, a in steps + [("Snap", t) for t in PSEUDO])
        # the re-registration order is taken from the table (helper methods can hide it from the translator; it is validated by
        # the comparison of the model's load with the real load on every case)
        lo = "; ".join("c" + t for t in full_load_order(r))
        A(f"Definition root_{r['name']} : root_desc := Root c{r['name']} [{st}] [{lo}].")
    A("")
    A("Definition roots : list root_desc := [" + "; ".join("root_" + r["name"] for r in ROOTS) + "].")
    A("")
    # which adapter serialises an object: the ADAPTERS table in source order (extracted), and the subclass relation of the
    # eight collection classes (introspected from soundevent.data)
    order, parents = dispatch_tables(ex)
    A("Definition adapters_order : list cls := [" + "; ".join("c" + n for n in order) + "].")
    A("Definition collection_parent (c : cls) : option cls :=")
    A("  match c with")
    for n, par in parents.items():
        if par is not None:
            A(f"  | {root_cls(n)} => Some c{par}")
    A("  | _ => None")
    A("  end.")
    return "\n".join(L) + "\n"


def dispatch_tables(ex=None):
    """(ADAPTERS order as data class names, {class: nearest collection base or None})"""
    from soundevent import data

    names = [r["name"] for r in ROOTS]
    parents = {}
    for n in names:
        cls = getattr(data, n)
        par = next((b.__name__ for b in cls.__mro__[1:] if b.__name__ in names), None)
        parents[n] = par
    if ex is not None and ex.get("dispatch"):
        order = [e[1] for e in ex["dispatch"]["order"]]
    else:
        from soundevent.io import aoef as _A

        order = [a[1].__name__ for a in _A.ADAPTERS]
    return order, parents


# ------------------------------------------------------------------------------------------------ canonical values
def jsonify(v):
    """JSON-native canonical form of a scalar (same form on the object side and the document side)"""
    from pydantic import BaseModel

    if v is None or isinstance(v, (bool, str)):
        return v
    if isinstance(v, (int, float)):
        return ("num", float(v).hex())
    if isinstance(v, datetime.datetime):
        return v.isoformat()
    if isinstance(v, (datetime.date, datetime.time)):
        return v.isoformat()
    if isinstance(v, uuidlib.UUID):
        return str(v)
    if isinstance(v, pathlib.PurePath):
        return str(v)
    if isinstance(v, enum.Enum):
        return jsonify(v.value)
    if isinstance(v, BaseModel):
        return jsonify(v.model_dump(mode="json"))
    if isinstance(v, dict):
        return tuple(sorted((k, jsonify(x)) for k, x in v.items()))
    if isinstance(v, (list, tuple)):
        return tuple(jsonify(x) for x in v)
    raise TypeError(f"cannot canonicalise {type(v).__name__}")


class Interner:
    """values -> small Z tokens, per case; token 0 is reserved for "absent / default" """

    def __init__(self):
        self.t = {("absent",): 0}
        self.rev = {0: ("absent",)}

    def __call__(self, v):
        if v not in self.t:
            self.t[v] = len(self.t)
            self.rev[self.t[v]] = v
        return self.t[v]


DEFAULTS = {"plain": None, "te": ("num", (1.0).hex()), "feat": (), "path": None, "term": None}


def _canon_scalar_obj(codec, v):
    if codec == "feat":
        return tuple((f.term.label, float(f.value).hex()) for f in (v or []))
    if codec == "term":
        return v.label
    if codec == "path":
        return str(v)
    return jsonify(v)


def _tok(I, codec, canon):
    """the default of a codec is the reserved token 0, so that an unwritten field is `mask`ed to the same token"""
    if canon == DEFAULTS[codec] or canon is None:
        return 0
    return I(("v", canon))


def key_of_obj(I, cname, obj):
    d = desc_of(cname)
    kind = d.get("key", "uuid")
    if kind == "uuid":
        return I(("k", str(obj.uuid)))
    if kind == "tag":
        return I(("k", "tag", obj.term.label, obj.value))
    if cname == "PredictedTag":
        return I(("k", "pt", obj.tag.term.label, obj.tag.value, float(obj.score).hex()))
    if cname == "StatusBadge":
        return I(("k", "sb", jsonify(obj.state), str(obj.owner.uuid) if obj.owner else None, jsonify(obj.created_on)))
    raise KeyError(cname)


def node_of(I, cname, obj):
    """real object -> generic node (cls, key, scalars, kids)"""
    d = desc_of(cname)
    cidx = CIDX[cname] if cname in CIDX else root_cls(cname)
    scal = [_tok(I, codec, _canon_scalar_obj(codec, getattr(obj, f))) for f, _, codec in d["scalars"]]
    kids = []
    for f, _, tgt, card, _how in d["kids"]:
        v = getattr(obj, f)
        vs = [] if v is None else (list(v) if card == "Many" else [v])
        kids.append([node_of(I, tgt, x) for x in vs])
    return (cidx, key_of_obj(I, cname, obj), scal, kids)


# ------------------------------------------------------------------------------------------------ document side
def _canon_scalar_doc(codec, v, audio_dir):
    if codec == "feat":
        return tuple((k, float(x).hex()) for k, x in (v or {}).items())
    if codec == "te":
        return ("num", float(1.0 if v is None else v).hex())
    if codec == "path":
        if v is None:
            return None
        return str(pathlib.Path(audio_dir) / v) if audio_dir is not None else str(pathlib.Path(v))
    if codec == "term":
        return v
    if isinstance(v, (int, float)) and not isinstance(v, bool):
        return ("num", float(v).hex())
    if isinstance(v, dict):
        return jsonify(v)
    if isinstance(v, list):
        return jsonify(v)
    return v


class DocReader:
    """real JSON document (the `data` object) -> per-class flat records, root flat"""

    def __init__(self, I, data, audio_dir=None):
        self.I, self.data, self.audio_dir = I, data, audio_dir
        self.tagkey = {}
        for t in data.get("tags") or []:
            self.tagkey.setdefault(t["id"], I(("k", "tag", t["key"], t["value"])))
        self.tables = {i: [] for i in range(NCLS)}
        self.seen_inline = {i: set() for i in INLINE}

    def ref_key(self, tgt, raw):
        if tgt == "Tag":
            return self.tagkey.get(raw, self.I(("k", "dangling-tag", raw)))
        if isinstance(raw, dict):  # a top-level list of records used as the root's reference list
            raw = raw.get("uuid")
        return self.I(("k", str(raw)))

    def flat(self, cname, rec):
        d = desc_of(cname)
        I = self.I
        if isinstance(rec, (list, tuple)):  # scored tag tuple
            get = lambda f: rec[f] if f < len(rec) else None
        else:
            get = rec.get
        scal = [_tok(I, codec, _canon_scalar_doc(codec, get(df), self.audio_dir)) for _, df, codec in d["scalars"]]
        kids = []
        for _f, df, tgt, card, how in d["kids"]:
            v = get(df)
            vs = [] if v is None else (list(v) if card == "Many" else [v])
            if how == "ref":
                kids.append([(CIDX[tgt], self.ref_key(tgt, x)) for x in vs])
            else:  # inline / scored: the embedded record becomes a row of the pseudo-table
                ks = []
                for x in vs:
                    fl = self.flat(tgt, x)
                    ks.append((CIDX[tgt], fl[0]))
                    if fl[0] not in self.seen_inline[CIDX[tgt]]:
                        self.seen_inline[CIDX[tgt]].add(fl[0])
                        self.tables[CIDX[tgt]].append(fl)
                kids.append(ks)
        kind = d.get("key", "uuid")
        if kind == "uuid":
            k = I(("k", str(get("uuid"))))
        elif kind == "tag":
            k = I(("k", "tag", get("key"), get("value")))
        elif cname == "PredictedTag":
            tk = self.tagkey.get(rec[0])
            lab = I.rev[tk][2:] if tk is not None else ("dangling", rec[0])
            k = I(("k", "pt", *lab, float(rec[1]).hex()))
        else:  # StatusBadge
            k = I(("k", "sb", get("state"), get("owner"), get("created_on")))
        return (k, scal, kids)

    def read(self, rootname):
        for i, c in enumerate(CLASSES):
            if c["table"] is None:
                continue
            for rec in self.data.get(c["table"]) or []:
                self.tables[i].append(self.flat(c["name"], rec))
        root = ROOTS[RIDX[rootname]]
        rf = self.flat(rootname, self.data)
        return self.tables, rf


# ------------------------------------------------------------------------------------------------ Coq literals
def zl(n):
    return str(n) if n >= 0 else f"({n})"


def node_lit(n):
    c, k, s, kids = n
    return (f"(Node {c}%nat {zl(k)} [" + "; ".join(zl(t) for t in s) + "] ["
            + "; ".join("[" + "; ".join(node_lit(x) for x in ks) + "]" for ks in kids) + "])")


def flat_lit(f):
    k, s, kids = f
    return (f"(Flat {zl(k)} [" + "; ".join(zl(t) for t in s) + "] ["
            + "; ".join("[" + "; ".join(f"({c}%nat, {zl(x)})" for c, x in ks) + "]" for ks in kids) + "])")


def doc_lit(tables, rootflat):
    tl = "; ".join(f"({c}%nat, [" + "; ".join(flat_lit(f) for f in t) + "])" for c, t in sorted(tables.items()) if t)
    return f"(([{tl}] : list (cls * table)), {flat_lit(rootflat)})"


def node_size(n):
    return 1 + sum(node_size(x) for ks in n[3] for x in ks)


# ------------------------------------------------------------------------------------------------ inventory
def inventory_problems(references_only=False):
    """every declared field of every data class / AOEF object class must be known to the schema (fail closed).
    references_only: ignore differences that concern only fields the schema knows as scalars (irrelevant to closure)"""
    from soundevent import data
    from soundevent.io import aoef as A
    import importlib

    class _L(list):
        def note(self, c, declared, known, msg):
            scal = {s[0] for s in c["scalars"]} | {s[1] for s in c["scalars"]}
            if references_only and (declared ^ known) <= scal:
                return
            self.append(msg)

    out = _L()
    for c in CLASSES + ROOTS:
        cls = getattr(data, c["name"])
        known = {s[0] for s in c["scalars"]} | {k[0] for k in c["kids"]} | {"uuid"}
        if c["name"] == "Tag":
            known = {"term", "value"}
        if c["name"] in ("PredictedTag", "StatusBadge"):
            known -= {"uuid"}
        declared = set(cls.model_fields)
        if declared != known:
            out.note(c, declared, known, f"{c['name']}: declared {sorted(declared - known)} unknown to the schema, schema has {sorted(known - declared)} not declared")
    objmods = {
        "User": ("user", "UserObject"), "Tag": ("tag", "TagObject"), "Note": ("note", "NoteObject"),
        "Recording": ("recording", "RecordingObject"), "Clip": ("clip", "ClipObject"),
        "SoundEvent": ("sound_event", "SoundEventObject"), "Sequence": ("sequence", "SequenceObject"),
        "SoundEventAnnotation": ("sound_event_annotation", "SoundEventAnnotationObject"),
        "SequenceAnnotation": ("sequence_annotation", "SequenceAnnotationObject"),
        "ClipAnnotation": ("clip_annotations", "ClipAnnotationsObject"),
        "SoundEventPrediction": ("sound_event_prediction", "SoundEventPredictionObject"),
        "SequencePrediction": ("sequence_prediction", "SequencePredictionObject"),
        "ClipPrediction": ("clip_predictions", "ClipPredictionsObject"),
        "StatusBadge": ("annotation_task", "StatusBadgeObject"), "AnnotationTask": ("annotation_task", "AnnotationTaskObject"),
        "Match": ("match", "MatchObject"), "ClipEvaluation": ("clip_evaluation", "ClipEvaluationObject"),
    }
    for name, (mod, oc) in objmods.items():
        c = desc_of(name)
        ocls = getattr(importlib.import_module(f"soundevent.io.aoef.{mod}"), oc)
        known = {s[1] for s in c["scalars"]} | {k[1] for k in c["kids"]} | ({"uuid"} if c["key"] == "uuid" else set())
        if name == "Tag":
            known |= {"id"}
        declared = set(ocls.model_fields)
        if declared != known:
            out.note(c, declared, known, f"{oc}: declared {sorted(declared - known)} unknown to the schema, schema has {sorted(known - declared)} not declared")
    tabs = {c["table"] for c in CLASSES if c["table"]}
    for r in ROOTS:
        ocls = [a for a in A.ADAPTERS if a[0] == r["ctype"]]
        if not ocls:
            out.append(f"root {r['name']}: no entry in ADAPTERS")
            continue
        import typing
        ann = typing.get_type_hints(ocls[0][2].to_aoef).get("return")
        declared = set(ann.model_fields)
        known = {s[1] for s in r["scalars"]} | {k[1] for k in r["kids"]} | {"uuid", "collection_type"}
        known |= {CLASSES[CIDX[a]]["table"] for k, a in r["steps"] if k == "Snap"}
        extra = declared - known
        # a declared top-level list that the adapter never fills is exactly the PredictionSet defect
        if extra or (known - declared):
            out.note(r, declared, known, f"root {r['name']}: document fields {sorted(extra)} unknown / not emitted per schema; schema-only {sorted(known - declared)}")
    if [a[0] for a in A.ADAPTERS] != ["evaluation", "dataset", "annotation_project", "evaluation_set", "model_run", "annotation_set", "prediction_set", "recording_set"]:
        out.append("ADAPTERS order changed: " + ",".join(a[0] for a in A.ADAPTERS))
    return out
