"""pygen — a small, fail-closed translator from a subset of Python (read with `ast`) to Gallina.

It regenerates coq/Gen/Source.v from /repo/src on every run.  Each listed function of the library is
translated *from its source text* into a Gallina definition over Q / Z / bool / option / list / tuples in
the `res` monad (Base/Res.v); Gen/Equiv*.v then proves, against whatever was generated, that the
definition agrees with the hand-written model the property theorems are about, and Props/Cxx.v restates
the key theorems directly on the generated definitions.  So a change of the code that changes what one of
these functions computes breaks a proof obligation, not only the sampled correspondence.

Supported subset (anything else raises Unsupported and the unit falls back, see `generate`):
  statements : docstring, assignment (name / tuple target / swap), augmented assignment, if/elif/else,
               raise, return, `for x in <list>` whose body only raises or falls through,
               `for i in itertools.count()` whose body breaks / raises / yields once (generator),
               the idiom `if x is None: x = e`
  expressions: names, numeric constants, + - * /, unary -, not/and/or, comparisons (chained too),
               `is None` / `is not None`, max/min/abs/len/any(genexp), constant indexing, x[::-1],
               tuples, list displays, attribute paths and calls declared in the unit's interface,
               f-strings (kept symbolic)
Types: Q (float), Z (int), N (loop index), B (bool), O(t), L(t), T(t..), G (geometry), K(gtype list), U (unit), Id, F.
"""
from __future__ import annotations

import ast
import re
from fractions import Fraction
from pathlib import Path


class Unsupported(Exception):
    pass


# ---------------------------------------------------------------- types
def T(*ts):
    return ("T",) + tuple(ts)


def L(t):
    return ("L", t)


def O(t):
    return ("O", t)


Q, Z, N, B, G, U, LIT, ID, FSTR, KSET, SEG, BUF, STR, SHP, TAG, OBJ, FNAME, ARR = "Q", "Z", "N", "B", "G", "U", "LIT", "Id", "F", "K", "Seg", "Buf", "Str", "Shp", "Tag", "Obj", "Fname", "Arr"
COO = "Coo"
FN = "Fn"
PTH = "Pth"


def coq_type(t) -> str:
    if t == Q:
        return "Q"
    if t == Z:
        return "Z"
    if t == N:
        return "nat"
    if t == B:
        return "bool"
    if t == G:
        return "geom"
    if t == U:
        return "unit"
    if t == ID:
        return "ident"
    if t == FSTR:
        return "(list fpart)"
    if t == KSET:
        return "(list gtype)"
    if t == SEG:
        return "segclip"
    if t == BUF:
        return "buffered"
    if t == SHP:
        return "shp"
    if t == TAG:
        return "tag"
    if t == OBJ:
        return "Z"
    if t == FNAME:
        return "fname"
    if t == ARR:
        return "axis"
    if t == COO:
        return "coo"
    if t == PTH:
        return "(list Z)"
    if isinstance(t, tuple) and t[0] == "S":
        return f"(list {coq_type(t[1])})"
    if isinstance(t, tuple) and t[0] == "D":
        return f"(list ({coq_type(t[1])} * {coq_type(t[2])}))"
    if isinstance(t, tuple) and t[0] == "R":
        return "(" + " * ".join(coq_type(x) for _, x in t[1]) + ")"
    if isinstance(t, tuple):
        if t[0] == "T":
            return "(" + " * ".join(coq_type(x) for x in t[1:]) + ")"
        if t[0] == "L":
            return f"(list {coq_type(t[1])})"
        if t[0] == "O":
            return f"(option {coq_type(t[1])})"
    raise Unsupported(f"type {t!r}")


def parse_type(s: str):
    """'Q', 'O(Q)', 'L(L(Q))', 'T(Q,Q)' -> type"""
    s = s.strip()
    for atom in (Q, Z, N, B, G, U, ID, FSTR, KSET, SEG, BUF, SHP, TAG, OBJ, FNAME, ARR, COO, FN, PTH):
        if s == atom:
            return atom
    if s.startswith("R{") and s.endswith("}"):  # record: R{tag:Tag;score:Q}
        return ("R", tuple((f.split(":")[0].strip(), parse_type(f.split(":")[1])) for f in s[2:-1].split(";")))
    head, rest = s[0], s[1:]
    if head in "OLTS" and rest.startswith("(") and rest.endswith(")"):
        inner = rest[1:-1]
        parts, depth, cur = [], 0, ""
        for ch in inner:
            if ch == "(":
                depth += 1
            if ch == ")":
                depth -= 1
            if ch == "," and depth == 0:
                parts.append(cur)
                cur = ""
            else:
                cur += ch
        parts.append(cur)
        ps = [parse_type(p) for p in parts]
        if head == "O":
            return O(ps[0])
        if head == "L":
            return L(ps[0])
        if head == "S":
            return ("S", ps[0])
        return T(*ps)
    raise Unsupported(f"type text {s!r}")


ANNOT = {  # annotation text -> type (used for validators)
    "Time": Q,
    "float": Q,
    "Frequency": Q,
    "List[Time]": L(Q),
    "List[float]": L(Q),
    "List[List[float]]": L(L(Q)),
    "List[List[List[float]]]": L(L(L(Q))),
    "List[List[List[List[float]]]]": L(L(L(L(Q)))),
}

ERRCLASS = {
    "ValueError": "EValue",
    "KeyError": "EKey",
    "NotImplementedError": "ENotImpl",
    "TypeError": "EType",
}


def qlit(v) -> str:
    f = Fraction(v)
    if f.denominator == 1:
        return f"{f.numerator}" if f.numerator >= 0 else f"(-{-f.numerator})"
    return f"({f.numerator}#{f.denominator})"


COQ_RESERVED = {
    "end", "at", "as", "in", "if", "then", "else", "fun", "let", "match", "with", "return", "fix", "cofix", "forall", "exists",
    "Type", "Set", "Prop", "where", "using", "for", "struct", "IF", "mod", "bind", "sbind", "fuel", "Ok", "Err", "Some", "None",
    "geom", "pt", "shp", "bounds", "res", "list", "option", "nat", "bool", "unit", "fname",
    "true", "false", "tt", "rev", "pymax", "pymin", "qltb", "qleb", "qeqb", "idx", "map", "nth", "length", "fst", "snd", "id",
}


class _Rename(ast.NodeTransformer):
    """python identifiers that are reserved words (or prelude names) in Coq get a suffix"""

    @staticmethod
    def fix(n):
        return n + "_py" if n in COQ_RESERVED else n

    def visit_Name(self, node):
        node.id = self.fix(node.id)
        return node

    def visit_arg(self, node):
        node.arg = self.fix(node.arg)
        return node

    def visit_keyword(self, node):
        if node.arg is not None:
            node.arg = self.fix(node.arg)
        self.generic_visit(node)
        return node


# ---------------------------------------------------------------- helper functions called by a translated unit
class Ctx:
    """Resolves calls to plain helper functions (same module, same class, or imported from the package) and
    translates them on demand with the argument types of the call site; their definitions precede the unit's."""

    def __init__(self, src_root: Path, rel: str, tree: ast.Module, cls: str | None, prefix: str, consts: dict, load_tree):
        self.src_root, self.rel, self.tree, self.cls, self.prefix, self.consts, self.load_tree = src_root, rel, tree, cls, prefix, consts, load_tree
        self.done: dict = {}
        self.emitted: list[str] = []
        self.stack: list[str] = []

    def find(self, fname: str):
        """-> (FunctionDef, module tree, rel, class or None)"""
        parts = fname.split(".")
        if len(parts) == 2 and parts[0] in ("cls", "self") and self.cls:
            for n in self.tree.body:
                if isinstance(n, ast.ClassDef) and n.name == self.cls:
                    for m in n.body:
                        if isinstance(m, ast.FunctionDef) and m.name == parts[1]:
                            return m, self.tree, self.rel, self.cls
            return None
        if len(parts) != 1:
            return None
        for n in self.tree.body:
            if isinstance(n, ast.FunctionDef) and n.name == fname:
                return n, self.tree, self.rel, None
        for n in self.tree.body:  # from <package module> import fname
            if isinstance(n, ast.ImportFrom):
                for a in n.names:
                    if (a.asname or a.name) == fname:
                        base = Path(self.rel).parent
                        if n.level:
                            for _ in range(n.level - 1):
                                base = base.parent
                            modp = base / Path(*(n.module or "").split(".")) if n.module else base
                        elif (n.module or "").startswith("soundevent"):
                            modp = Path(*n.module.split(".")[1:]) if "." in n.module else Path("")
                        else:
                            return None
                        for cand in (modp.with_suffix(".py"), modp / "__init__.py"):
                            if (self.src_root / "soundevent" / cand).exists():
                                t = self.load_tree(str(cand))
                                for m in t.body:
                                    if isinstance(m, ast.FunctionDef) and m.name == a.name:
                                        return m, t, str(cand), None
                        return None
        return None

    def helper(self, fname: str, argtypes: tuple, kwtypes: tuple):
        found = self.find(fname)
        if found is None:
            return None
        node, tree, rel, cls = found
        if node.decorator_list and not all(isinstance(d, ast.Name) and d.id in ("staticmethod", "classmethod") for d in node.decorator_list):
            raise Unsupported(f"helper {fname} is decorated")
        key = (rel, cls, node.name, argtypes, kwtypes)
        if key in self.done:
            return self.done[key]
        if fname in self.stack or len(self.stack) >= 4:
            raise Unsupported(f"helper {fname}: recursion or nesting too deep")
        self.stack.append(fname)
        try:
            a = node.args
            names = [_Rename.fix(x.arg) for x in a.args if x.arg not in ("cls", "self")]
            ptypes = {}
            for n, t in zip(names, argtypes):
                ptypes[n] = t
            for n, t in kwtypes:
                if n not in names and n not in [_Rename.fix(x.arg) for x in a.kwonlyargs]:
                    raise Unsupported(f"helper {fname}: unknown keyword {n}")
                ptypes[n] = t
            sub = Ctx(self.src_root, rel, tree, cls, self.prefix, self.consts, self.load_tree)
            sub.done, sub.emitted, sub.stack = self.done, self.emitted, self.stack
            sub.calls, sub.strings = getattr(self, "calls", {}), getattr(self, "strings", {})
            sub.custom = getattr(self, "custom", [])
            coq_name = f"{self.prefix}__{node.name}" + (f"_{len([k for k in self.done if k[2] == node.name])}" if any(k[2] == node.name for k in self.done) else "")
            fn = Fn(node, {"ptypes": ptypes, "consts": self.consts, "calls": getattr(self, "calls", {}), "strings": getattr(self, "strings", {})}, coq_name, sub)
            txt = fn.translate()
            self.emitted.append(txt)
            res = (coq_name, [n for n, _ in fn.params], fn.ret, fn.param_defaults)
            self.done[key] = res
            return res
        finally:
            self.stack.pop()


# ---------------------------------------------------------------- translation of one function
class Fn:
    """iface: {
         'params': {pyname: typetext}                     parameters kept as they are
         'attrs':  {'geometry.coordinates': typetext}     attribute paths that become parameters
         'calls':  {'compute_bounds': {'coq': 'py_compute_bounds', 'args': ['G'], 'ret': 'T(Q,Q,Q,Q)', 'monadic': True,
                                       'kw': ['time_buffer'], 'ignore_kw': [...]}}
         'consts': {'data.MAX_FREQUENCY': ('MAX_FREQUENCY', 'Q')}
         'ret': typetext, 'generator': bool, 'drop_params': [...], 'strings': {'TimeStamp': 'TTimeStamp'} }"""

    def __init__(self, node: ast.FunctionDef, iface: dict, coq_name: str, ctx: "Ctx | None" = None):
        self.ctx = ctx
        self.fold_k = []
        self.narrow_stack = []  # (python name, its entry outside the narrowing, the narrowed coq name)
        self.params = []
        self.param_defaults = {}
        import copy

        node = _Rename().visit(copy.deepcopy(node))
        self.node = node
        self.iface = iface
        self.coq_name = coq_name
        self.fresh = 0
        self.ret = parse_type(iface["ret"]) if "ret" in iface else None
        self.generator = bool(iface.get("generator"))

    # ---- helpers
    def gensym(self, base="t"):
        self.fresh += 1
        return f"{base}_{self.fresh}"

    def attr_path(self, e) -> str | None:
        parts = []
        while isinstance(e, ast.Attribute):
            parts.append(e.attr)
            e = e.value
        if isinstance(e, ast.Name):
            parts.append(e.id)
            return ".".join(reversed(parts))
        return None

    def coerce(self, txt, t, want):
        if t == want:
            return txt
        if t == LIT:
            v = txt  # txt holds the python literal value
            if want == Q:
                return qlit(v)
            if want == Z:
                if Fraction(v).denominator != 1:
                    raise Unsupported("non-integer literal as Z")
                return f"({int(Fraction(v))})%Z"
            if want == N:
                if Fraction(v).denominator != 1 or Fraction(v) < 0:
                    raise Unsupported("literal as nat")
                return f"{int(Fraction(v))}%nat"
        if t == N and want == Q:
            return f"(idx {txt})"
        if t == Z and want == Q:
            return f"(inject_Z {txt})"
        raise Unsupported(f"cannot use {t} as {want}")

    def expr_as(self, e, env, hoist, want):
        """translate e where a value of type `want` is expected (tuples elementwise; x for Optional[x]; None; numeric literals)"""
        if isinstance(e, ast.Tuple) and isinstance(want, tuple) and want[0] == "T" and len(want) - 1 == len(e.elts):
            parts = [self.expr_as(x, env, hoist, w) for x, w in zip(e.elts, want[1:])]
            return "(" + ", ".join(parts) + ")"
        t, ty = self.expr(e, env, hoist)
        if ty == want:
            return t
        if ty == LIT:
            return self.coerce(t, LIT, want)
        if isinstance(want, tuple) and want[0] == "O":
            if ty == ("O", None):
                return "None"
            if ty == want[1]:
                return f"(Some {t})"
        if ty in (N, Z) and want == Q:
            return self.coerce(t, ty, Q)
        raise Unsupported(f"a {ty} where a {want} is expected")

    def unify_num(self, a, ta, b, tb):
        """bring two numeric operands to a common type"""
        if ta == LIT and tb == LIT:
            return qlit(a), qlit(b), Q
        if ta == LIT:
            tgt = Q if tb in (Q, N) else tb
            return self.coerce(a, LIT, tgt), self.coerce(b, tb, tgt), tgt
        if tb == LIT:
            tgt = Q if ta in (Q, N) else ta
            return self.coerce(a, ta, tgt), self.coerce(b, LIT, tgt), tgt
        if ta == tb and ta in (Q, Z):
            return a, b, ta
        if {ta, tb} <= {Q, N, Z}:
            return self.coerce(a, ta, Q), self.coerce(b, tb, Q), Q
        raise Unsupported(f"numeric operands {ta} {tb}")

    # ---- expressions: returns (text, type); failing sub-computations are appended to `hoist`
    def expr(self, e, env, hoist, pure=False):
        def sub(x):
            return self.expr(x, env, hoist, pure)

        for handler in self.iface.get("custom", []) or (self.ctx.custom if self.ctx is not None and getattr(self.ctx, "custom", None) else []):
            r = handler(self, e, env, hoist, pure)
            if r is not None:
                return r

        if isinstance(e, ast.Constant):
            if isinstance(e.value, bool):
                return ("true" if e.value else "false"), B
            if isinstance(e.value, (int, float)):
                return Fraction(str(e.value)) if isinstance(e.value, float) else Fraction(e.value), LIT
            if e.value is None:
                return "None", ("O", None)
            if isinstance(e.value, str):
                strings = self.iface.get("strings", {})
                if e.value in strings:
                    return strings[e.value], STR
            raise Unsupported(f"constant {e.value!r}")
        if isinstance(e, ast.Name):
            if e.id in env:
                return env[e.id]
            consts = self.iface.get("consts", {})
            if e.id in consts:
                return consts[e.id][0], parse_type(consts[e.id][1])
            raise Unsupported(f"unknown name {e.id}")
        if isinstance(e, ast.Attribute):
            p = self.attr_path(e)
            if p and p in env:
                return env[p]
            consts = self.iface.get("consts", {})
            if p and p in consts:
                return consts[p][0], parse_type(consts[p][1])
            try:
                bt, bty = sub(e.value)
            except Unsupported:
                raise Unsupported(f"attribute {p or ast.dump(e)}")
            if bty == OBJ and e.attr == "uuid":
                return bt, Z
            if bty == SHP and e.attr == "bounds":  # shapely: (minx, miny, maxx, maxy); an empty shape has no bounds
                if pure:
                    raise Unsupported("bounds in a position that cannot fail")
                name = self.gensym("bounds")
                hoist.append((name, f"py_shp_bounds {bt}", T(Q, Q, Q, Q)))
                return name, T(Q, Q, Q, Q)
            if bty == SHP and e.attr == "geoms":
                return f"(shp_geoms {bt})", L(U)
            raise Unsupported(f"attribute {p or ast.dump(e)}")
        if isinstance(e, ast.UnaryOp):
            if isinstance(e.op, ast.Not):
                t, ty = sub(e.operand)
                if ty != B:
                    raise Unsupported("not on non-bool")
                return f"(negb {t})", B
            if isinstance(e.op, ast.USub):
                t, ty = sub(e.operand)
                if ty == LIT:
                    return -t, LIT
                if ty in (Q, Z):
                    return f"(- {t})", ty
            raise Unsupported("unary op")
        if isinstance(e, ast.BinOp):
            a, ta = sub(e.left)
            b, tb = sub(e.right)
            if isinstance(e.op, ast.Div):
                a, b, ty = self.unify_num(a, ta, b, tb)
                a, b = self.coerce(a, ty, Q), self.coerce(b, ty, Q)
                if pure:
                    raise Unsupported("division in a position that cannot fail")
                name = self.gensym("quot")
                hoist.append((name, f"py_div {a} {b}", Q))
                return name, Q
            if isinstance(e.op, ast.Add) and isinstance(ta, tuple) and ta[0] == "L" and isinstance(tb, tuple) and tb[0] == "L":
                et = ta[1] if ta[1] is not None else tb[1]
                if ta[1] is not None and tb[1] is not None and ta[1] != tb[1]:
                    raise Unsupported("concatenation of lists of different element types")
                return f"({a} ++ {b})", ("L", et)
            ops = {ast.Add: "+", ast.Sub: "-", ast.Mult: "*"}
            for k, o in ops.items():
                if isinstance(e.op, k):
                    a, b, ty = self.unify_num(a, ta, b, tb)
                    if ty == Z:
                        return f"({a} {o} {b})%Z", Z
                    return f"({a} {o} {b})", Q
            raise Unsupported(f"binary op {type(e.op).__name__}")
        if isinstance(e, ast.BoolOp):
            op = "&&" if isinstance(e.op, ast.And) else "||"
            parts = []
            for i, v in enumerate(e.values):
                h2 = []
                t, ty = self.expr(v, env, h2, pure)
                if h2:
                    if i == 0:
                        hoist.extend(h2)
                    else:
                        raise Unsupported("failing computation under short-circuit operator")
                if ty != B:
                    raise Unsupported("and/or on non-bool (truthiness is not modelled)")
                parts.append(t)
            return "(" + f" {op} ".join(parts) + ")", B
        if isinstance(e, ast.Compare):
            left = e.left
            outs = []
            for op, right in zip(e.ops, e.comparators):
                outs.append(self.compare(op, left, right, env, hoist, pure))
                left = right
            if len(outs) > 1:
                for x in e.comparators[:-1]:
                    h2 = []
                    self.expr(x, env, h2, pure)
                    if h2:
                        raise Unsupported("failing computation in chained comparison")
                return "(" + " && ".join(outs) + ")", B
            return outs[0], B
        if isinstance(e, ast.Tuple):
            xs = [sub(x) for x in e.elts]
            xs = [(qlit(t), Q) if ty == LIT else (t, ty) for t, ty in xs]
            return "(" + ", ".join(t for t, _ in xs) + ")", T(*[ty for _, ty in xs])
        if isinstance(e, ast.List):
            xs = [sub(x) for x in e.elts]
            if not xs:
                return "[]", ("L", None)  # element type fixed by the first append / concatenation
            xs = [(qlit(t), Q) if ty == LIT else (t, ty) for t, ty in xs]
            ty0 = xs[0][1]
            if any(ty != ty0 for _, ty in xs):
                raise Unsupported("heterogeneous list display")
            return "[" + "; ".join(t for t, _ in xs) + "]", L(ty0)
        if isinstance(e, ast.Subscript) and isinstance(e.value, ast.Name) and isinstance(e.slice, ast.Constant) and isinstance(e.slice.value, str):
            key = f"{e.value.id}.{e.slice.value}"  # d["k"] on a parameter declared field by field
            if key in env:
                return env[key]
            raise Unsupported(f"key {key}")
        if isinstance(e, (ast.ListComp, ast.SetComp)):
            return self.comprehension(e, env, hoist)
        if isinstance(e, ast.DictComp):  # {k: v for x in L}: association list in insertion order; lookups take the last entry
            if len(e.generators) != 1 or e.generators[0].ifs or e.generators[0].is_async:
                raise Unsupported("dict comprehension with conditions or several generators")
            g = e.generators[0]
            it, tit = self.expr(g.iter, env, hoist)
            if not (isinstance(tit, tuple) and tit[0] == "L"):
                raise Unsupported("dict comprehension over something else than a list")
            env2 = dict(env)
            binder, opening, closing = self.bind_target(g.target, tit[1], env2)
            if opening:
                raise Unsupported("dict comprehension target")
            kx, tk = self.expr(e.key, env2, [], True)
            vx, tv = self.expr(e.value, env2, [], True)
            if tk != Z:
                raise Unsupported("dict keys other than identifiers")
            return f"(map (fun {binder} => ({kx}, {vx})) {it})", ("D", Z, tv)
        if isinstance(e, ast.Subscript) and not isinstance(e.slice, ast.Slice):
            h2 = []
            try:
                dv, td = self.expr(e.value, env, h2, pure)
            except Unsupported:
                dv, td = None, None
            if isinstance(td, tuple) and td[0] == "D" and not h2:
                kx, tk = self.expr(e.slice, env, hoist, pure)
                if tk != td[1]:
                    raise Unsupported("dict key type")
                if pure:
                    raise Unsupported("dict lookup in a position that cannot fail")
                name = self.gensym("val")
                hoist.append((name, f"py_dict_get {dv} {kx}", td[2]))
                return name, td[2]
        if isinstance(e, ast.Subscript):
            v, tv = sub(e.value)
            s = e.slice
            if isinstance(s, ast.Slice):
                if s.lower is None and s.upper is None and isinstance(s.step, ast.UnaryOp) and isinstance(s.step.op, ast.USub) and isinstance(s.step.operand, ast.Constant) and s.step.operand.value == 1:
                    if tv[0] != "L":
                        raise Unsupported("reverse of non-list")
                    return f"(rev {v})", tv
                # l[k:] for a constant k >= 0
                if s.upper is None and s.step is None and isinstance(s.lower, ast.Constant) and isinstance(s.lower.value, int) and s.lower.value >= 0 and isinstance(tv, tuple) and tv[0] == "L":
                    return f"(skipn {s.lower.value} {v})", tv
                raise Unsupported("slice")
            i, ti = sub(s)
            if ti != LIT or Fraction(i).denominator != 1:
                raise Unsupported("non-constant index")
            if not (isinstance(tv, tuple) and tv[0] == "L"):
                raise Unsupported("index into non-list")
            if pure:
                raise Unsupported("indexing in a position that cannot fail")
            name = self.gensym("item")
            hoist.append((name, f"py_index {v} ({int(i)})%Z", tv[1]))
            return name, tv[1]
        if isinstance(e, ast.Call):
            return self.call(e, env, hoist, pure)
        if isinstance(e, ast.JoinedStr):
            parts = []
            for v in e.values:
                if isinstance(v, ast.Constant) and isinstance(v.value, str):
                    # the literal text is kept as a code: sum of code points and length (enough to tell the
                    # literals of one f-string apart; the text itself is compared by the correspondence)
                    parts.append(f"FS ({sum(map(ord, v.value)) * 1000 + len(v.value)})%Z")
                elif isinstance(v, ast.FormattedValue) and v.conversion == -1 and v.format_spec is None:
                    t, ty = sub(v.value)
                    if ty == Q:
                        parts.append(f"FQ {t}")
                    elif ty == Z:
                        parts.append(f"FId {t}")
                    else:
                        raise Unsupported("f-string field type")
                else:
                    raise Unsupported("f-string field")
            return "[" + "; ".join(parts) + "]", FSTR
        if isinstance(e, ast.IfExp):
            c, tc = sub(e.test)
            h2 = []
            a, ta = self.expr(e.body, env, h2, pure)
            b, tb = self.expr(e.orelse, env, h2, pure)
            if h2:
                raise Unsupported("failing computation under conditional expression")
            if ta == LIT and tb == LIT:
                a, b, ta = qlit(a), qlit(b), Q
            elif ta == LIT:
                a, ta = self.coerce(a, LIT, tb), tb
            elif tb == LIT:
                b = self.coerce(b, LIT, ta)
            elif ta != tb:
                raise Unsupported("conditional expression types")
            return f"(if {c} then {a} else {b})", ta
        raise Unsupported(f"expression {type(e).__name__}")

    def comprehension(self, e, env, hoist):
        """[elt for x in L if cond] -> flat_map; {…} additionally deduplicated (py_set). Elements: identifiers (Z)."""
        if len(e.generators) != 1 or e.generators[0].is_async:
            raise Unsupported("comprehension with several generators")
        g = e.generators[0]
        it, tit = self.expr(g.iter, env, hoist)
        if not (isinstance(tit, tuple) and tit[0] == "L"):
            raise Unsupported("comprehension over something else than a list (the iteration order of a set is not modelled)")
        env2 = dict(env)
        binder, opening, closing = self.bind_target(g.target, tit[1], env2)
        if opening:
            raise Unsupported("comprehension target unpacking a list")
        narrowed = []
        conds = []
        for c in g.ifs:
            # `X is not None` on an optional attribute path narrows X inside the element expression
            if isinstance(c, ast.Compare) and len(c.ops) == 1 and isinstance(c.ops[0], ast.IsNot) and isinstance(c.comparators[0], ast.Constant) and c.comparators[0].value is None:
                p = self.attr_path(c.left) if isinstance(c.left, ast.Attribute) else (c.left.id if isinstance(c.left, ast.Name) else None)
                if p in env2 and isinstance(env2[p][1], tuple) and env2[p][1][0] == "O":
                    v = env2[p][0] + "_v"
                    narrowed.append((env2[p][0], v))
                    env2[p] = (v, env2[p][1][1])
                    continue
            h3 = []
            t = self.test(c, env2, h3)
            if h3:
                raise Unsupported("failing computation in a comprehension condition")
            conds.append(t)
        elt, tel = self.expr(e.elt, env2, [], True)
        if tel == LIT:
            elt, tel = qlit(elt), Q
        body = f"[{elt}]"
        if conds:
            body = f"if {' && '.join(conds)} then {body} else []"
        for outer, v in reversed(narrowed):
            body = f"match {outer} with Some {v} => {body} | None => [] end"
        txt = f"(flat_map (fun {binder} => {body}) {it})"
        if isinstance(e, ast.SetComp):
            if tel != Z:
                raise Unsupported("set of something else than identifiers")
            return f"(py_set {txt})", ("S", Z)
        return txt, L(tel)

    # ---- boolean contexts: Python truthiness of typed values
    def truthy(self, t, ty):
        if ty == B:
            return t
        if ty == LIT:
            return "true" if Fraction(t) != 0 else "false"
        if ty == Q:
            return f"(negb (qeqb {t} 0))"
        if ty == Z:
            return f"(negb ({t} =? 0)%Z)"
        if ty == N:
            return f"(negb (Nat.eqb {t} 0))"
        if isinstance(ty, tuple) and ty[0] in ("L", "S"):
            return f"(negb ((py_len {t}) =? 0)%Z)"
        if isinstance(ty, tuple) and ty[0] == "O" and ty[1] is not None:
            return f"(match {t} with Some v_ => {self.truthy('v_', ty[1])} | None => false end)"
        raise Unsupported(f"truth value of a {ty}")

    def test(self, e, env, hoist):
        """an expression in a boolean context (an `if` test, an operand of not / and / or in one)"""
        if isinstance(e, ast.UnaryOp) and isinstance(e.op, ast.Not):
            return f"(negb {self.test(e.operand, env, hoist)})"
        if isinstance(e, ast.BoolOp):
            op = "&&" if isinstance(e.op, ast.And) else "||"
            parts = []
            for i, v in enumerate(e.values):
                h2 = []
                parts.append(self.test(v, env, h2))
                if h2:
                    if i == 0:
                        hoist.extend(h2)
                    else:
                        raise Unsupported("failing computation under short-circuit operator")
            return "(" + f" {op} ".join(parts) + ")"
        t, ty = self.expr(e, env, hoist)
        return self.truthy(t, ty)

    def compare(self, op, l, r, env, hoist, pure):
        # None tests
        if isinstance(op, (ast.Is, ast.IsNot)):
            if isinstance(r, ast.Constant) and r.value is None:
                t, ty = self.expr(l, env, hoist, pure)
                if not (isinstance(ty, tuple) and ty[0] == "O"):
                    raise Unsupported("is None on a non-optional")
                return f"(is_none {t})" if isinstance(op, ast.Is) else f"(is_some {t})"
            raise Unsupported("is / is not")
        if isinstance(op, (ast.In, ast.NotIn)) and isinstance(r, (ast.List, ast.Tuple, ast.Set)) and r.elts and all(isinstance(x, ast.Constant) and isinstance(x.value, str) for x in r.elts):
            a, ta = self.expr(l, env, hoist, pure)
            strings = self.iface.get("strings", {})
            if ta == "Gtype" and all(x.value in strings for x in r.elts):
                txt = f"(type_in {a} [{'; '.join(strings[x.value] for x in r.elts)}])"
                return txt if isinstance(op, ast.In) else f"(negb {txt})"
            raise Unsupported("membership in a display of strings")
        a, ta = self.expr(l, env, hoist, pure)
        b, tb = self.expr(r, env, hoist, pure)
        if isinstance(op, (ast.In, ast.NotIn)) and isinstance(tb, tuple) and tb[0] == "D" and ta == tb[1] == Z:
            txt = f"(py_dict_mem {a} {b})"
            return txt if isinstance(op, ast.In) else f"(negb {txt})"
        if isinstance(op, (ast.In, ast.NotIn)) and ta == Z and tb in (L(Z), ("S", Z)):
            txt = f"(memz {a} {b})"
            return txt if isinstance(op, ast.In) else f"(negb {txt})"
        if isinstance(op, (ast.In, ast.NotIn)) and ta == N and tb in (L(N), ("S", N), ("S", None)):
            txt = f"(existsb (Nat.eqb {a}) {b})"
            return txt if isinstance(op, ast.In) else f"(negb {txt})"
        if isinstance(op, (ast.Eq, ast.NotEq)) and ta == ("S", Z) and tb == ("S", Z):
            txt = f"(set_eqz {a} {b})"
            return txt if isinstance(op, ast.Eq) else f"(negb {txt})"
        if isinstance(op, (ast.In, ast.NotIn)):
            if ta == "Gtype" and tb == KSET:
                txt = f"(type_in {a} {b})"
                return txt if isinstance(op, ast.In) else f"(negb {txt})"
            raise Unsupported("in")
        if ta == "Gtype" and tb == STR and isinstance(op, (ast.Eq, ast.NotEq)):
            txt = f"(has_type {a} {b})"
            return txt if isinstance(op, ast.Eq) else f"(negb {txt})"
        a, b, ty = self.unify_num(a, ta, b, tb)
        if ty == Q:
            m = {ast.Lt: f"(qltb {a} {b})", ast.LtE: f"(qleb {a} {b})", ast.Gt: f"(qltb {b} {a})", ast.GtE: f"(qleb {b} {a})",
                 ast.Eq: f"(qeqb {a} {b})", ast.NotEq: f"(negb (qeqb {a} {b}))"}
        elif ty == Z:
            m = {ast.Lt: f"({a} <? {b})%Z", ast.LtE: f"({a} <=? {b})%Z", ast.Gt: f"({b} <? {a})%Z", ast.GtE: f"({b} <=? {a})%Z",
                 ast.Eq: f"({a} =? {b})%Z", ast.NotEq: f"(negb ({a} =? {b})%Z)"}
        else:
            raise Unsupported("comparison type")
        for k, v in m.items():
            if isinstance(op, k):
                return v
        raise Unsupported("comparison operator")

    def call(self, e: ast.Call, env, hoist, pure):
        fname = self.attr_path(e.func) if isinstance(e.func, ast.Attribute) else (e.func.id if isinstance(e.func, ast.Name) else None)
        if fname is None:
            raise Unsupported("call of a computed function")
        if fname in ("max", "min") and len(e.args) == 2 and not e.keywords:
            a, ta = self.expr(e.args[0], env, hoist, pure)
            b, tb = self.expr(e.args[1], env, hoist, pure)
            a, b, ty = self.unify_num(a, ta, b, tb)
            a, b = self.coerce(a, ty, Q), self.coerce(b, ty, Q)
            return f"(py{fname} {a} {b})", Q
        if fname == "int" and len(e.args) == 1 and not e.keywords:
            a, ta = self.expr(e.args[0], env, hoist, pure)
            if ta == LIT:
                a, ta = qlit(a), Q
            if ta == Z:
                return a, Z
            return f"(py_int {self.coerce(a, ta, Q)})", Z
        if fname == "float" and len(e.args) == 1 and not e.keywords:
            a, ta = self.expr(e.args[0], env, hoist, pure)
            if ta == LIT:
                return qlit(a), Q
            return self.coerce(a, ta, Q), Q
        if fname == "abs" and len(e.args) == 1:
            a, ta = self.expr(e.args[0], env, hoist, pure)
            return f"(qabs {self.coerce(a, ta, Q)})", Q
        if fname == "len" and len(e.args) == 1:
            a, ta = self.expr(e.args[0], env, hoist, pure)
            if not (isinstance(ta, tuple) and ta[0] in ("L", "S")):
                raise Unsupported("len of non-list")
            return f"(py_len {a})", Z
        if fname == "set" and not e.args and not e.keywords:
            return "[]", ("S", None)  # element type fixed by the first add / update
        if fname == "set" and len(e.args) == 1 and not e.keywords:
            a, ta = self.expr(e.args[0], env, hoist, pure)
            if ta not in (L(Z), ("S", Z)):
                raise Unsupported("set() of something else than a list of identifiers")
            return f"(py_set {a})", ("S", Z)
        if fname in ("any", "all") and len(e.args) == 1 and isinstance(e.args[0], ast.GeneratorExp):
            g = e.args[0]
            if len(g.generators) != 1 or g.generators[0].ifs or not isinstance(g.generators[0].target, ast.Name):
                raise Unsupported("generator expression")
            it, tit = self.expr(g.generators[0].iter, env, hoist, pure)
            if not (isinstance(tit, tuple) and tit[0] == "L"):
                raise Unsupported("any/all over non-list")
            v = g.generators[0].target.id
            env2 = dict(env)
            env2[v] = (v, tit[1])
            body, tb = self.expr(g.elt, env2, [], True)
            if tb != B:
                raise Unsupported("any/all of non-bool")
            return f"({'existsb' if fname == 'any' else 'forallb'} (fun {v} => {body}) {it})", B
        if isinstance(e.func, ast.Attribute) and e.func.attr in ("issuperset", "issubset", "isdisjoint") and len(e.args) == 1 and not e.keywords:
            h2 = []
            try:
                recv, tr = self.expr(e.func.value, env, h2, pure)
            except Unsupported:
                recv, tr = None, None
            if tr == ("S", Z) and not h2:
                a, ta = self.expr(e.args[0], env, hoist, pure)
                if ta not in (L(Z), ("S", Z)):
                    raise Unsupported("set method on something else than identifiers")
                if e.func.attr == "issuperset":
                    return f"(subsetz {a} {recv})", B
                if e.func.attr == "issubset":
                    return f"(subsetz {recv} {a})", B
                return f"(negb (existsb (fun x_ => memz x_ {a}) {recv}))", B
        calls = self.iface.get("calls", {})
        if fname in calls:
            spec = calls[fname]
            args = list(e.args)
            kws = {k.arg: k.value for k in e.keywords if k.arg is not None}
            if any(k.arg is None for k in e.keywords) and not spec.get("ignore_starred"):
                raise Unsupported("**kwargs in call")
            for k in spec.get("ignore_kw", []):
                kws.pop(k, None)
            order = spec.get("kw", [])
            vals = []
            want = [parse_type(t) for t in spec["args"]]
            pos = list(args)
            names = spec.get("argnames", [])
            for i, wt in enumerate(want):
                if i < len(pos):
                    node = pos[i]
                elif i < len(names) and names[i] in kws:
                    node = kws.pop(names[i])
                elif i < len(names) and names[i] in spec.get("defaults", {}):
                    vals.append(spec["defaults"][names[i]])
                    continue
                else:
                    raise Unsupported(f"call {fname}: argument {i} missing")
                t, ty = self.expr(node, env, hoist, pure)
                if ty == LIT:
                    t, ty = self.coerce(t, LIT, wt), wt
                if ty != wt:
                    if ty in (N, Z) and wt == Q:
                        t = self.coerce(t, ty, Q)
                    else:
                        raise Unsupported(f"call {fname}: argument {i} has type {ty}, wanted {wt}")
                vals.append(t)
            if kws:
                raise Unsupported(f"call {fname}: unexpected keywords {sorted(kws)}")
            if len(pos) > len(want):
                raise Unsupported(f"call {fname}: too many arguments")
            rt = parse_type(spec["ret"])
            txt = "(" + " ".join([spec["coq"]] + [f"{v}" for v in vals]) + ")"
            if spec.get("monadic"):
                if pure:
                    raise Unsupported("failing call in a position that cannot fail")
                name = self.gensym("r")
                hoist.append((name, txt[1:-1], rt))
                return name, rt
            return txt, rt
        if self.ctx is not None:
            if any(k.arg is None for k in e.keywords) or any(isinstance(x, ast.Starred) for x in e.args):
                raise Unsupported(f"call of {fname} with * or **")
            pos = [self.expr(x, env, hoist, pure) for x in e.args]
            pos = [(qlit(t), Q) if ty == LIT else (t, ty) for t, ty in pos]
            kws = [(k.arg,) + self.expr(k.value, env, hoist, pure) for k in e.keywords]
            kws = [(n, qlit(t), Q) if ty == LIT else (n, t, ty) for n, t, ty in kws]
            h = self.ctx.helper(fname, tuple(ty for _, ty in pos), tuple((n, ty) for n, _, ty in kws))
            if h is not None:
                coq_name, pnames, rt, defaults = h
                if pure:
                    raise Unsupported("helper call in a position that cannot fail")
                given = {}
                for n, (t, _ty) in zip(pnames, pos):
                    given[n] = t
                for n, t, _ty in kws:
                    if n in given:
                        raise Unsupported(f"call of {fname}: {n} given twice")
                    given[n] = t
                vals = []
                for n in pnames:
                    if n in given:
                        vals.append(given[n])
                    elif n in defaults:
                        vals.append(defaults[n])
                    else:
                        raise Unsupported(f"call of {fname}: argument {n} missing")
                name = self.gensym("r")
                hoist.append((name, " ".join([coq_name] + [f"{v}" for v in vals]), rt))
                return name, rt
        raise Unsupported(f"call of {fname}")

    # ---- statements
    @staticmethod
    def terminal(stmts) -> bool:
        if not stmts:
            return False
        s = stmts[-1]
        if isinstance(s, (ast.Raise, ast.Return, ast.Break, ast.Continue)):
            return True
        if isinstance(s, ast.If):
            return Fn.terminal(s.body) and Fn.terminal(s.orelse)
        return False

    @staticmethod
    def assigned(stmts) -> list[str]:
        out = []

        def tgt(t):
            if isinstance(t, ast.Name):
                if t.id not in out:
                    out.append(t.id)
            elif isinstance(t, (ast.Tuple, ast.List)):
                for x in t.elts:
                    tgt(x)
            elif isinstance(t, ast.Subscript) and isinstance(t.value, ast.Name):
                if t.value.id not in out:
                    out.append(t.value.id)
            else:
                raise Unsupported("assignment target")

        for s in stmts:
            if isinstance(s, ast.Expr) and isinstance(s.value, ast.Call) and isinstance(s.value.func, ast.Attribute) and s.value.func.attr in ("append", "extend", "add", "update") and isinstance(s.value.func.value, ast.Name):
                tgt(s.value.func.value)
            elif isinstance(s, ast.AnnAssign) and s.value is not None:
                tgt(s.target)
            elif isinstance(s, ast.Assign):
                for t in s.targets:
                    tgt(t)
            elif isinstance(s, ast.AugAssign):
                tgt(s.target)
            elif isinstance(s, ast.If):
                for n in Fn.assigned(s.body) + Fn.assigned(s.orelse):
                    if n not in out:
                        out.append(n)
            elif isinstance(s, ast.For):
                tgt(s.target)
                for n in Fn.assigned(s.body):
                    if n not in out:
                        out.append(n)
        return out

    def wrap(self, hoist, body, mode):
        """wrap `body` in the binds of the hoisted failing computations"""
        if hoist and mode == "fn" and self.generator:
            raise Unsupported("failing computation before the loop of a generator")
        b = "sbind" if mode == "loop" else "bind"
        for name, m, _ty in reversed(hoist):
            body = f"{b} ({m}) (fun {name} =>\n{body})"
        return body

    def ret_ok(self, txt, mode):
        return f"Ok {txt}"

    def block(self, stmts, env, k, mode):
        """mode: 'fn' (result type res ret), 'each' (res unit, inside for_each), 'loop' (step, generator body).
        k(env) gives the text for falling off the end of the block."""
        if not stmts:
            return k(env)
        s, rest = stmts[0], stmts[1:]

        def cont(env2):
            return self.block(rest, env2, k, mode)

        if isinstance(s, ast.Expr) and isinstance(s.value, ast.Constant) and isinstance(s.value.value, str):
            return cont(env)
        if isinstance(s, ast.Pass):
            return cont(env)
        if isinstance(s, ast.Raise):
            exc = s.exc
            name = None
            if isinstance(exc, ast.Call) and isinstance(exc.func, ast.Name):
                name = exc.func.id
            elif isinstance(exc, ast.Name):
                name = exc.id
            if name not in ERRCLASS:
                raise Unsupported(f"raise {name}")
            if mode == "loop":
                return f"SRaise {ERRCLASS[name]}"
            if mode == "fn" and self.generator:
                return f"Some (Err {ERRCLASS[name]})"
            return f"Err {ERRCLASS[name]}"
        if isinstance(s, ast.Return):
            if mode not in ("fn", "fold"):
                raise Unsupported("return inside a loop body")
            okr = (lambda x: f"Ok (BRet {x})") if mode == "fold" else (lambda x: f"Ok {x}")
            if s.value is None or (isinstance(s.value, ast.Constant) and s.value.value is None):
                if isinstance(self.ret, tuple) and self.ret[0] == "O":
                    return okr("None")
                if self.ret != U:
                    raise Unsupported("bare return in a function that returns a value")
                return okr("tt")
            hoist = []
            t, ty = self.expr(s.value, env, hoist)
            if ty == LIT:
                t, ty = self.coerce(t, LIT, self.ret or Q), (self.ret or Q)
            if self.ret is None:
                self.ret = ty
            if isinstance(self.ret, tuple) and self.ret[0] == "O" and ty == self.ret[1]:
                t, ty = f"(Some {t})", self.ret
            if mode == "fold":
                if ty != self.ret:
                    raise Unsupported(f"return type {ty}, expected {self.ret}")
                return self.wrap(hoist, okr(t), mode)
            if ty != self.ret:
                # a tail call whose result is already `res ret`
                raise Unsupported(f"return type {ty}, expected {self.ret}")
            # tail position: a single hoisted monadic value returned as is
            if hoist and hoist[-1][0] == t:
                last = hoist.pop()
                return self.wrap(hoist, f"({last[1]})", mode)
            return self.wrap(hoist, f"Ok {t}", mode)
        if isinstance(s, ast.Break):
            if mode == "fold":
                return self.fold_k[-1](self.unnarrow(env)).replace("Ok (BNext ", "Ok (BBreak ", 1)
            if mode != "loop":
                raise Unsupported("break outside a generator loop")
            return "SBreak"
        if isinstance(s, ast.Continue):
            if mode == "fold":
                return self.fold_k[-1](self.unnarrow(env))
            if mode != "each":
                raise Unsupported("continue")
            return "Ok tt"
        if (isinstance(s, ast.Expr) and isinstance(s.value, ast.Call) and isinstance(s.value.func, ast.Attribute)
                and s.value.func.attr in ("append", "extend") and isinstance(s.value.func.value, ast.Name)
                and s.value.func.value.id in env and isinstance(env[s.value.func.value.id][1], tuple) and env[s.value.func.value.id][1][0] == "L"
                and len(s.value.args) == 1 and not s.value.keywords):
            x = s.value.func.value.id
            hoist = []
            et = env[x][1][1]
            if s.value.func.attr == "append" and et is not None:
                v, tv = self.expr_as(s.value.args[0], env, hoist, et), et
            else:
                v, tv = self.expr(s.value.args[0], env, hoist)
            if tv == LIT:
                v, tv = qlit(v), Q
            if s.value.func.attr == "append":
                if et is not None and tv != et:
                    raise Unsupported("append of another element type")
                new, nt = f"({env[x][0]} ++ [{v}])", ("L", tv)
            else:
                if not (isinstance(tv, tuple) and tv[0] == "L") or (et is not None and tv[1] is not None and tv[1] != et):
                    raise Unsupported("extend with something else than a list of the same type")
                new, nt = f"({env[x][0]} ++ {v})", ("L", et if et is not None else tv[1])
            env2 = dict(env)
            env2[x] = (x, nt)
            return self.wrap(hoist, f"let {x} := {new} in\n{cont(env2)}", mode)
        if (isinstance(s, ast.Expr) and isinstance(s.value, ast.Call) and isinstance(s.value.func, ast.Attribute)
                and s.value.func.attr in ("add", "update") and isinstance(s.value.func.value, ast.Name)
                and s.value.func.value.id in env and isinstance(env[s.value.func.value.id][1], tuple) and env[s.value.func.value.id][1][0] == "S"
                and len(s.value.args) == 1 and not s.value.keywords):
            x = s.value.func.value.id
            et = env[x][1][1]
            if et not in (None, N):
                raise Unsupported("add / update on a set of something else than positions")
            hoist = []
            a0 = s.value.args[0]
            if s.value.func.attr == "add":
                v, tv = self.expr(a0, env, hoist)
                if tv != N:
                    raise Unsupported("add of something else than a position")
                new = f"({env[x][0]} ++ [{v}])"
            else:
                if not isinstance(a0, (ast.Tuple, ast.List)):
                    raise Unsupported("update with something else than a display")
                vs = [self.expr(z, env, hoist) for z in a0.elts]
                if any(tv != N for _, tv in vs):
                    raise Unsupported("update with something else than positions")
                new = f"({env[x][0]} ++ [{'; '.join(v for v, _ in vs)}])"
            env2 = dict(env)
            env2[x] = (x, ("S", N))
            return self.wrap(hoist, f"let {x} := {new} in\n{cont(env2)}", mode)
        if isinstance(s, ast.Expr) and isinstance(s.value, ast.Call):
            hoist = []
            t, ty = self.expr(s.value, env, hoist)
            if not hoist or hoist[-1][0] != t:
                raise Unsupported("expression statement that is not a call of a helper that can raise")
            return self.wrap(hoist, cont(env), mode)
        if isinstance(s, ast.Expr) and isinstance(s.value, ast.Yield):
            if mode != "loop" or rest:
                raise Unsupported("yield must be the last statement of the generator loop body")
            hoist = []
            t, ty = self.expr(s.value.value, env, hoist)
            if self.ret is None:
                self.ret = ty
            if ty != self.ret:
                raise Unsupported("yield type")
            return self.wrap(hoist, f"SYield {t}", mode)
        if isinstance(s, ast.AnnAssign) and s.value is not None and isinstance(s.target, ast.Name):
            s = ast.Assign(targets=[s.target], value=s.value)  # an annotated assignment is an assignment
        if isinstance(s, ast.Assign):
            if len(s.targets) != 1:
                raise Unsupported("chained assignment")
            tg = s.targets[0]
            if isinstance(tg, ast.Subscript) and isinstance(tg.value, ast.Name):  # x[i] = v on a list
                x = tg.value.id
                if x not in env or not (isinstance(env[x][1], tuple) and env[x][1][0] == "L"):
                    raise Unsupported("element assignment on a non-list")
                if isinstance(tg.slice, ast.Slice):
                    raise Unsupported("slice assignment")
                hoist = []
                i, ti = self.expr(tg.slice, env, hoist)
                v, tv = self.expr(s.value, env, hoist)
                et = env[x][1][1]
                if tv == LIT:
                    v, tv = self.coerce(v, LIT, et), et
                if tv != et:
                    raise Unsupported(f"element assignment of {tv} into list of {et}")
                if ti == LIT:
                    i, ti = self.coerce(i, LIT, Z), Z
                if ti == N:
                    setter = f"py_set_nth {env[x][0]} {i} {v}"
                elif ti == Z:
                    setter = f"py_set_nth_z {env[x][0]} {i} {v}"
                else:
                    raise Unsupported("index type in element assignment")
                env2 = dict(env)
                env2[x] = (x, env[x][1])
                b = "sbind" if mode == "loop" else "bind"
                return self.wrap(hoist, f"{b} ({setter}) (fun {x} =>\n{cont(env2)})", mode)
            return self.assign(tg, s.value, env, cont, mode)
        if isinstance(s, ast.AugAssign):
            if not isinstance(s.target, ast.Name):
                raise Unsupported("augmented assignment target")
            v = ast.BinOp(left=ast.Name(id=s.target.id, ctx=ast.Load()), op=s.op, right=s.value)
            return self.assign(s.target, v, env, cont, mode)
        if isinstance(s, ast.If):
            return self.if_(s, rest, env, k, mode)
        if isinstance(s, ast.For):
            return self.for_(s, rest, env, k, mode)
        raise Unsupported(f"statement {type(s).__name__}")

    def unnarrow(self, env):
        """leaving a loop iteration from inside a branch where an optional was narrowed: the loop state is the optional itself"""
        e2 = dict(env)
        for x, outer, vname in self.narrow_stack:
            if e2.get(x, (None,))[0] == vname:
                e2[x] = outer
        return e2

    def assign(self, target, value, env, cont, mode):
        hoist = []
        env2 = dict(env)
        if isinstance(target, ast.Name) and isinstance(value, (ast.Attribute, ast.Name)):
            p = self.attr_path(value) if isinstance(value, ast.Attribute) else value.id
            if p and p not in env and any(k.startswith(p + ".") for k in env):  # x = self.annotations: an alias of a prefix
                for k_, v_ in env.items():
                    if k_.startswith(p + "."):
                        env2[target.id + k_[len(p):]] = v_
                return cont(env2)
        if isinstance(target, ast.Name):
            t, ty = self.expr(value, env, hoist)
            if ty == ("L", None) and target.id == "yielded_" and self.iface.get("yields") and "ret" in self.iface:
                ty = parse_type(self.iface["ret"])
            if ty == LIT:
                t, ty = qlit(t), Q
            env2[target.id] = (target.id, ty)
            if hoist and hoist[-1][0] == t:  # x = failing computation: bind it directly under the python name
                last = hoist.pop()
                return self.wrap(hoist, f"{'sbind' if mode == 'loop' else 'bind'} ({last[1]}) (fun {target.id} =>\n{cont(env2)})", mode)
            return self.wrap(hoist, f"let {target.id} := {t} in\n{cont(env2)}", mode)
        if isinstance(target, ast.Tuple):
            names = []
            for x in target.elts:
                if not isinstance(x, ast.Name):
                    raise Unsupported("nested unpacking")
                names.append(x.id)
            t, ty = self.expr(value, env, hoist)
            if isinstance(ty, tuple) and ty[0] == "T":
                if len(ty) - 1 != len(names):
                    raise Unsupported("unpacking arity (tuple)")
                for n, et in zip(names, ty[1:]):
                    if n != "_":
                        env2[n] = (n, et)
                pat = "'(" + ", ".join(names) + ")"
                if hoist and hoist[-1][0] == t:
                    last = hoist.pop()
                    return self.wrap(hoist, f"{'sbind' if mode == 'loop' else 'bind'} ({last[1]}) (fun {pat} =>\n{cont(env2)})", mode)
                return self.wrap(hoist, f"let {pat} := {t} in\n{cont(env2)}", mode)
            if isinstance(ty, tuple) and ty[0] == "L":
                for n in names:
                    if n != "_":
                        env2[n] = (n, ty[1])
                err = "SRaise EValue" if mode == "loop" else "Err EValue"
                return self.wrap(hoist, f"match {t} with\n| [" + "; ".join(names) + f"] =>\n{cont(env2)}\n| _ => {err}\nend", mode)
            raise Unsupported("unpacking of a non-sequence")
        raise Unsupported("assignment target")

    def narrow(self, test):
        """`X is None` / `X is not None` on a plain name -> (name, positive?)"""
        if isinstance(test, ast.Compare) and len(test.ops) == 1 and isinstance(test.left, ast.Name) and isinstance(test.comparators[0], ast.Constant) and test.comparators[0].value is None:
            if isinstance(test.ops[0], ast.IsNot):
                return test.left.id, True
            if isinstance(test.ops[0], ast.Is):
                return test.left.id, False
        return None

    def if_(self, s: ast.If, rest, env, k, mode):
        if isinstance(s.test, ast.BoolOp) and isinstance(s.test.op, ast.And) and not s.orelse and all(self.narrow(v) and self.narrow(v)[1] for v in s.test.values):
            inner = s.body
            for v in reversed(s.test.values):  # nested ifs: equivalent when there is no else branch
                inner = [ast.If(test=v, body=inner, orelse=[])]
            return self.if_(inner[0], rest, env, k, mode)
        nar = self.narrow(s.test)
        # idiom: if x is None: x = e
        if nar and not nar[1] and not s.orelse and len(s.body) == 1 and isinstance(s.body[0], ast.Assign) and len(s.body[0].targets) == 1 and isinstance(s.body[0].targets[0], ast.Name) and s.body[0].targets[0].id == nar[0]:
            x = nar[0]
            tx, ty = env[x]
            if not (isinstance(ty, tuple) and ty[0] == "O"):
                raise Unsupported("default idiom on non-optional")
            hoist = []
            d, td = self.expr(s.body[0].value, env, hoist, True)
            d = self.coerce(d, td, ty[1]) if td != ty[1] else d
            env2 = dict(env)
            env2[x] = (x, ty[1])
            return f"let {x} := match {tx} with Some v_ => v_ | None => {d} end in\n{self.block(rest, env2, k, mode)}"
        body_falls = not self.terminal(s.body)
        else_falls = not self.terminal(s.orelse)
        W = [n for n in self.assigned(s.body) + self.assigned(s.orelse)]
        W = [n for i, n in enumerate(W) if n not in W[:i] and n != "_"]
        # variables that survive the if: those known before, or assigned in every branch that falls through
        live = []
        for n in W:
            inb = n in self.assigned(s.body) or not body_falls
            ine = n in self.assigned(s.orelse) or not else_falls
            if n in env or (inb and ine):
                live.append(n)
        both = body_falls and else_falls
        types = {}

        def join_k(env_b):
            for n in live:
                if n not in env_b:
                    raise Unsupported(f"{n} not defined on every path")
                ty = env_b[n][1]
                if n in types and types[n] != ty:
                    if types[n] in (("L", None), ("O", None)) and isinstance(ty, tuple) and ty[0] == types[n][0]:
                        pass
                    elif ty in (("L", None), ("O", None)) and isinstance(types[n], tuple) and types[n][0] == ty[0]:
                        ty = types[n]
                    else:
                        raise Unsupported(f"{n} has different types on different paths")
                types[n] = ty
            if both and rest:
                arg = "(" + ", ".join(env_b[n][0] for n in live) + ")" if live else "tt"
                return f"k_{kid} {arg}"
            env_after = dict(env)
            for n in live:
                env_after[n] = (n, env_b[n][1])
            if nar and nar[0] in env_b and nar[0] not in live and env_b[nar[0]] != env.get(nar[0]):
                env_after[nar[0]] = env_b[nar[0]]  # narrowing kept (see drop_narrow)
            return self.block(rest, env_after, k, mode)

        kid = self.gensym("")[1:]

        hoist = []
        if nar and isinstance(env.get(nar[0], (None, None))[1], tuple) and env[nar[0]][1][0] == "O":
            x, positive = nar
            tx, ty = env[x]
            envS = dict(env)
            vname = f"{x}_v"
            envS[x] = (vname, ty[1])
            some_stmts, none_stmts = (s.body, s.orelse) if positive else (s.orelse, s.body)

            some_falls, none_falls = (body_falls, else_falls) if positive else (else_falls, body_falls)

            def drop_narrow(env_b):  # after the branch the name has its outer meaning again unless reassigned
                e2 = dict(env_b)
                if e2.get(x, (None,))[0] == vname and not (some_falls and not none_falls) and x not in W:
                    # (when the None branch never falls through — `if x is None: continue / raise / return` — what follows is
                    #  only reached with a value, and is emitted inside the Some branch: the narrowing stays)
                    e2[x] = env[x]
                return join_k(e2)

            self.narrow_stack.append((x, env[x], vname))
            try:
                a = self.block(some_stmts, envS, drop_narrow, mode)
            finally:
                self.narrow_stack.pop()
            b = self.block(none_stmts, dict(env), join_k, mode)
            core = f"match {tx} with\n| Some {vname} =>\n{a}\n| None =>\n{b}\nend"
        else:
            tn = None  # `if x:` / `if not x:` on an optional: the truthy branch sees the value
            if isinstance(s.test, ast.Name):
                tn = (s.test.id, True)
            elif isinstance(s.test, ast.UnaryOp) and isinstance(s.test.op, ast.Not) and isinstance(s.test.operand, ast.Name):
                tn = (s.test.operand.id, False)
            if tn and tn[0] in env and isinstance(env[tn[0]][1], tuple) and env[tn[0]][1][0] == "O" and env[tn[0]][1][1] is not None:
                x, positive = tn
                tx, ty = env[x]
                vname = f"{x}_v"
                envS = dict(env)
                envS[x] = (vname, ty[1])
                t_stmts, f_stmts = (s.body, s.orelse) if positive else (s.orelse, s.body)

                def drop_t(env_b):
                    e2 = dict(env_b)
                    if e2.get(x, (None,))[0] == vname:
                        e2[x] = env[x]
                    return join_k(e2)

                self.narrow_stack.append((x, env[x], vname))
                try:
                    a = self.block(t_stmts, envS, drop_t, mode)
                finally:
                    self.narrow_stack.pop()
                b1 = self.block(f_stmts, dict(env), join_k, mode)
                b2 = self.block(f_stmts, dict(env), join_k, mode)
                core = f"match {tx} with\n| Some {vname} =>\nif {self.truthy(vname, ty[1])}\nthen {a}\nelse {b1}\n| None =>\n{b2}\nend"
            else:
                c = self.test(s.test, env, hoist)
                a = self.block(s.body, dict(env), join_k, mode)
                b = self.block(s.orelse, dict(env), join_k, mode)
                core = f"if {c}\nthen {a}\nelse {b}"
        if both and rest:
            env_after = dict(env)
            for n in live:
                env_after[n] = (n, types[n])
            pat = "'(" + ", ".join(live) + ")" if len(live) > 1 else (live[0] if live else "_")
            if len(live) == 1:
                pat = f"({live[0]} : {coq_type(types[live[0]])})"
            elif live:
                pat = f"'(({', '.join(live)}) : {coq_type(T(*[types[n] for n in live]))})"
            else:
                pat = "(_ : unit)"
            rest_txt = self.block(rest, env_after, k, mode)
            core = f"let k_{kid} := fun {pat} =>\n{rest_txt} in\n{core}"
        return self.wrap(hoist, core, mode)

    def for_(self, s: ast.For, rest, env, k, mode):
        if s.orelse:
            raise Unsupported("for/else")
        # generator loop
        if isinstance(s.iter, ast.Call) and self.attr_path(s.iter.func) in ("itertools.count", "count") and not s.iter.args:
            if not self.generator or mode != "fn" or rest or not isinstance(s.target, ast.Name):
                raise Unsupported("count() loop outside a generator tail")
            env2 = dict(env)
            env2[s.target.id] = (s.target.id, N)
            body = self.block(s.body, env2, lambda e: (_ for _ in ()).throw(Unsupported("generator loop body falls through without yield")), "loop")
            return f"count_loop fuel 0 (fun {s.target.id} =>\n{body})"
        if mode == "loop":
            raise Unsupported("for inside generator loop")
        hoist = []
        it, tit = self.expr(s.iter, env, hoist)
        if not (isinstance(tit, tuple) and tit[0] == "L"):
            raise Unsupported("for over a non-list")
        state = [n for n in self.assigned(s.body) if n in env]
        has_return = any(isinstance(x, (ast.Return, ast.Break)) for st in s.body for x in ast.walk(st))
        if state or has_return:
            return self.fold_for(s, rest, env, k, mode, hoist, it, tit, state)
        env2 = dict(env)
        if isinstance(s.target, ast.Name) and not (isinstance(tit[1], tuple) and tit[1][0] == "R"):
            env2[s.target.id] = (s.target.id, tit[1])
            body = self.block(s.body, env2, lambda e: "Ok tt", "each")
            fun = f"fun {s.target.id} =>\n{body}"
        else:
            binder, opening, closing = self.bind_target(s.target, tit[1], env2)
            body = self.block(s.body, env2, lambda e: "Ok tt", "each")
            fun = f"fun {binder} =>\n{opening}{body}{closing}"
        env_after = {n: v for n, v in env.items() if n not in self.assigned([s])}
        # names assigned in the loop but defined before keep their *outer* value only if the loop does not touch them
        for n in self.assigned([s]):
            if n in env:
                raise Unsupported(f"loop assigns outer variable {n}")
        after = self.block(rest, env_after, k, mode)
        return self.wrap(hoist, f"bind (for_each {it} ({fun})) (fun _ =>\n{after})", mode)

    def bind_target(self, target, et, env2):
        """loop variable(s) of element type et -> (binder text, opening text, closing text)"""
        if isinstance(target, ast.Name):
            if isinstance(et, tuple) and et[0] == "R":  # a record: its fields become attribute paths of the variable
                names = []
                for f, ft in et[1]:
                    cn = f"{target.id}_{f}".replace(".", "_")
                    env2[f"{target.id}.{f}"] = (cn, ft)
                    names.append(cn)
                env2[target.id] = (names[0] if len(names) == 1 else "(" + ", ".join(names) + ")", et)  # the record as a whole
                if len(names) == 1:
                    return names[0], "", ""
                return f"'({', '.join(names)})", "", ""
            env2[target.id] = (target.id, et)
            return target.id, "", ""
        if isinstance(target, ast.Tuple) and all(isinstance(x, ast.Name) for x in target.elts):
            names = [x.id for x in target.elts]
            if isinstance(et, tuple) and et[0] == "L":
                for n in names:
                    env2[n] = (n, et[1])
                return "item_", "match item_ with\n| [" + "; ".join(names) + "] =>\n", "\n| _ => Err EValue\nend"
            if isinstance(et, tuple) and et[0] == "T" and len(et) - 1 == len(names):
                for n, t in zip(names, et[1:]):
                    env2[n] = (n, t)
                return "'(" + ", ".join(names) + ")", "", ""
        if isinstance(target, ast.Tuple) and isinstance(et, tuple) and et[0] == "T" and len(et) - 1 == len(target.elts):
            # nested unpacking of tuples of tuples: `for (i, a), (j, b) in …`
            def pat(tg, ty):
                if isinstance(tg, ast.Name):
                    if isinstance(ty, tuple) and ty[0] == "R":
                        raise Unsupported("record inside a nested target")
                    env2[tg.id] = (tg.id, ty)
                    return tg.id
                if isinstance(tg, ast.Tuple) and isinstance(ty, tuple) and ty[0] == "T" and len(ty) - 1 == len(tg.elts):
                    return "(" + ", ".join(pat(x, t) for x, t in zip(tg.elts, ty[1:])) + ")"
                raise Unsupported("for target (nested)")
            return "'" + pat(target, et), "", ""
        raise Unsupported("for target")

    def fold_for(self, s, rest, env, k, mode, hoist, it, tit, state):
        """a loop that updates variables of the enclosing scope and / or returns from the function:
        fold_loop over the list with the updated variables as state; the body answers LDone state | LRet value"""
        if mode not in ("fn", "fold"):
            raise Unsupported("stateful loop in this position")
        for n in self.assigned(s.body) + self.assigned([ast.Assign(targets=[s.target], value=ast.Constant(value=0))]):
            pass
        env2 = dict(env)
        binder, opening, closing = self.bind_target(s.target, tit[1], env2)
        st_pat = ("'(" + ", ".join(state) + ")") if len(state) > 1 else (state[0] if state else "_")
        st_val = lambda e: ("(" + ", ".join(e[n][0] for n in state) + ")") if state else "tt"

        final = {}

        def k_body(e):
            for n in state:
                if isinstance(e[n][1], tuple) and e[n][1][0] in ("L", "O", "S") and e[n][1][1] is not None:
                    final[n] = e[n][1]
                if e[n][1] != env[n][1] and not (env[n][1] in (("L", None), ("O", None), ("S", None)) and isinstance(e[n][1], tuple) and e[n][1][0] == env[n][1][0]):
                    raise Unsupported(f"loop changes the type of {n}")
            return f"Ok (BNext {st_val(e)})"

        self.fold_k.append(k_body)
        try:
            body = self.block(s.body, env2, k_body, "fold")
        finally:
            self.fold_k.pop()
        if self.ret is None:
            raise Unsupported("return type not known at a loop")
        env_after = {n: v for n, v in env.items()}
        for n in self.assigned(s.body):
            if n not in state:
                env_after.pop(n, None)
        sty = {n: (final.get(n, env[n][1]) if env[n][1] in (("L", None), ("O", None), ("S", None)) else env[n][1]) for n in state}
        for n in state:
            env_after[n] = (env[n][0], sty[n])
        after = self.block(rest, env_after, k, mode)
        ret_branch = "Ok (BRet v_)" if mode == "fold" else "Ok v_"
        st_ty = coq_type(T(*[sty[n] for n in state])) if len(state) > 1 else (coq_type(sty[state[0]]) if state else "unit")
        loop = (f"fold_loop (S := {st_ty}) (R := {coq_type(self.ret)}) {it} {st_val(env)} (fun {st_pat} {binder} =>\n{opening}{body}{closing})")
        return self.wrap(hoist, f"bind ({loop}) (fun r_ =>\nmatch r_ with\n| LRet v_ => {ret_branch}\n| LDone {st_pat.lstrip("'")} =>\n{after}\nend)", mode)

    # ---- whole function
    def translate(self) -> str:
        node = self.node
        iface = self.iface
        env = {}
        params = []
        drop = set(iface.get("drop_params", [])) | {"cls", "self"}
        declared = iface.get("params", {})
        attrs = iface.get("attrs", {})
        a = node.args
        if a.vararg or a.posonlyargs:
            raise Unsupported("*args")
        allargs = list(a.args) + list(a.kwonlyargs)
        for arg in allargs:
            n = arg.arg
            if n in drop:
                for p in [p for p in attrs if p.split(".")[0] == n]:  # `self.x.y` of a method: a parameter of its own
                    cn = p.replace(".", "_")
                    ty = parse_type(attrs[p])
                    env[p] = (cn, ty)
                    params.append((cn, ty))
                continue
            used_attr = [p for p in attrs if p.split(".")[0] == n]
            if n in iface.get("ptypes", {}):  # a helper: the types come from the call site
                ty = iface["ptypes"][n]
                env[n] = (n, ty)
                params.append((n, ty))
                if ty == G:
                    env[f"{n}.type"] = (n, "Gtype")
            elif "ptypes" in iface:
                # not given at the call site: needs a constant default
                dflts = dict(zip([x.arg for x in a.args][len(a.args) - len(a.defaults):], a.defaults))
                dflts.update({x.arg: d for x, d in zip(a.kwonlyargs, a.kw_defaults) if d is not None})
                d = dflts.get(n)
                if d is None:
                    raise Unsupported(f"helper parameter {n} neither given nor defaulted")
                t, ty = self.expr(d, {}, [], True)
                if ty == LIT:
                    t, ty = qlit(t), Q
                if isinstance(ty, tuple) and ty[0] == "O" and ty[1] is None:
                    raise Unsupported(f"helper parameter {n} defaults to None")
                env[n] = (n, ty)
                params.append((n, ty))
                self.param_defaults[n] = t
            elif n in declared:
                ty = parse_type(declared[n])
                env[n] = (n, ty)
                params.append((n, ty))
                if ty == G:
                    env[f"{n}.type"] = (n, "Gtype")
            elif used_attr:
                pass
            elif arg.annotation is not None and ast.unparse(arg.annotation) in ANNOT:
                ty = ANNOT[ast.unparse(arg.annotation)]
                env[n] = (n, ty)
                params.append((n, ty))
            else:
                raise Unsupported(f"parameter {n} has no declared representation")
            for p in used_attr:
                cn = p.replace(".", "_")
                ty = parse_type(attrs[p])
                env[p] = (cn, ty)
                params.append((cn, ty))
        if a.kwarg and a.kwarg.arg not in drop:
            raise Unsupported("**kwargs parameter")
        self.raw_params = list(iface.get("fparams", {}).items())
        if self.generator:
            params.insert(0, ("fuel", N))
        self.params = params
        # a function without any `return <value>` returns None: unit
        has_value_return = any(
            isinstance(x, ast.Return) and x.value is not None and not (isinstance(x.value, ast.Constant) and x.value.value is None)
            for x in ast.walk(node)
        )
        if not has_value_return and not self.generator and self.ret is None:
            self.ret = U

        def off_end(_e):
            if self.ret == U:
                return "Ok tt"
            raise Unsupported("function can fall off its end")

        stmts = list(node.body)
        if iface.get("skip_until_assigned"):
            # only the tail of the function is read: everything up to and including the assignment of this name is the
            # unit's precondition (its result and the names listed in extra_params are parameters)
            idx = None
            for i_, st in enumerate(stmts):
                if isinstance(st, ast.Assign) and len(st.targets) == 1 and isinstance(st.targets[0], ast.Name) and st.targets[0].id == iface["skip_until_assigned"]:
                    idx = i_
            if idx is None:
                raise Unsupported(f"no assignment of {iface['skip_until_assigned']}")
            stmts = stmts[idx + 1:]
        for n_, t_ in iface.get("extra_params", {}).items():
            ty_ = t_ if not isinstance(t_, str) else parse_type(t_) if t_ not in ("M",) else ("M",)
            env[n_] = (n_, ty_)
            self.raw_params.append((n_, "matrix" if ty_ == ("M",) else coq_type(ty_)))
        if iface.get("yields"):  # a generator that is not the count() idiom: collect what it yields, in order
            class _Y(ast.NodeTransformer):
                def visit_Expr(self, n):
                    if isinstance(n.value, ast.Yield):
                        return ast.Expr(value=ast.Call(func=ast.Attribute(value=ast.Name(id="yielded_", ctx=ast.Load()), attr="append", ctx=ast.Load()), args=[n.value.value], keywords=[]))
                    return n

                def visit_FunctionDef(self, n):
                    return n

            stmts = [ast.Assign(targets=[ast.Name(id="yielded_", ctx=ast.Store())], value=ast.List(elts=[], ctx=ast.Load()))] + [_Y().visit(x) for x in stmts] + [ast.Return(value=ast.Name(id="yielded_", ctx=ast.Load()))]
            has_value_return = True
            if self.ret == U:
                self.ret = parse_type(iface["ret"])
        body = self.block(stmts, env, off_end, "fn")
        if self.ret is None:
            raise Unsupported("no return type")
        ps = " ".join([f"({n} : {t})" for n, t in getattr(self, "raw_params", [])] + [f"({n} : {coq_type(t)})" for n, t in params])
        rt = f"option (res (list {coq_type(self.ret)}))" if self.generator else f"res {coq_type(self.ret)}"
        return f"Definition {self.coq_name} {ps} : {rt} :=\n{body}."



# ---------------------------------------------------------------- glue for xarray / pandas objects (one axis of an array)
def arr_handler(fn, e, env, hoist, pure):
    """<arr>.indexes[dim] -> the coordinates (a pandas index); <arr>.sizes[dim]; index.min() / .max() / .get_slice_bound(v, 'right');
    <arr>.sel({dim: slice(a, b)}).  The array is one axis: (coordinate, value) pairs (type Arr = CropExtend.axis)."""
    if isinstance(e, ast.Subscript) and isinstance(e.value, ast.Attribute) and isinstance(e.value.value, ast.Name) and e.value.value.id in env and env[e.value.value.id][1] == ARR:
        a = env[e.value.value.id][0]
        if e.value.attr == "indexes":
            return f"(coords {a})", ("Idx",)
        if e.value.attr == "sizes":
            return f"(Z.of_nat (length {a}))", Z
    if isinstance(e, ast.Call) and isinstance(e.func, ast.Attribute):
        m = e.func.attr
        if m in ("min", "max") and not e.args and not e.keywords:
            h2 = []
            try:
                t, ty = fn.expr(e.func.value, env, h2, pure)
            except Unsupported:
                return None
            if ty == ("Idx",) and not h2:
                if pure:
                    raise Unsupported("index.min() in a position that cannot fail")
                name = fn.gensym(m)
                hoist.append((name, f"py_idx_{m} {t}", Q))
                return name, Q
        if m == "get_slice_bound" and len(e.args) == 2 and not e.keywords and isinstance(e.args[1], ast.Constant) and e.args[1].value == "right":
            t, ty = fn.expr(e.func.value, env, hoist, pure)
            v, tv = fn.expr(e.args[0], env, hoist, pure)
            if ty == ("Idx",) and tv == Q:
                return f"(Z.of_nat (slice_bound_right {t} {v}))", Z
        if m == "sel" and len(e.args) == 1 and not e.keywords and isinstance(e.args[0], ast.Dict) and len(e.args[0].keys) == 1:
            sl = e.args[0].values[0]
            if isinstance(sl, ast.Call) and isinstance(sl.func, ast.Name) and sl.func.id == "slice" and len(sl.args) == 2 and not sl.keywords:
                t, ty = fn.expr(e.func.value, env, hoist, pure)
                lo, tlo = fn.expr(sl.args[0], env, hoist, pure)
                hi, thi = fn.expr(sl.args[1], env, hoist, pure)
                if ty == ARR and tlo == Q and thi == Q:
                    return f"(sel_slice {t} {lo} {hi})", ARR
    return None


def area_handler(fn, e, env, hoist, pure):
    """shp1.intersection(shp2).area, shp1.area, shp2.area: the three GEOS quantities of compute_affinity are parameters"""
    if isinstance(e, ast.Attribute) and e.attr == "area":
        v = e.value
        if isinstance(v, ast.Name) and v.id in ("shp1", "shp2"):
            return ("area1" if v.id == "shp1" else "area2"), Q
        if (isinstance(v, ast.Call) and isinstance(v.func, ast.Attribute) and v.func.attr == "intersection" and isinstance(v.func.value, ast.Name)
                and v.func.value.id == "shp1" and len(v.args) == 1 and isinstance(v.args[0], ast.Name) and v.args[0].id == "shp2" and not v.keywords):
            return "inter_area", Q
    return None


def simmat_handler(fn, e, env, hoist, pure):
    """combinations(enumerate(xs), 2) -> all pairs ((i, xs[i]), (j, xs[j])) with i < j in lexicographic order;
    sparse.coo_array((data, (i, j)), shape=(r, c), dtype=np.int8) -> the opaque matrix mk_coo data i j r c
    (scipy's COO constructor: entry k is data[k] at row i[k], column j[k]; duplicates are summed by consumers)."""
    if isinstance(e, ast.Call):
        f = fn.attr_path(e.func) if isinstance(e.func, ast.Attribute) else (e.func.id if isinstance(e.func, ast.Name) else None)
        if f in ("combinations", "itertools.combinations") and len(e.args) == 2 and not e.keywords:
            if not (isinstance(e.args[1], ast.Constant) and e.args[1].value == 2 and not isinstance(e.args[1].value, bool)):
                raise Unsupported("combinations of another size than 2")
            t, ty = fn.expr(e.args[0], env, hoist, pure)
            if not (isinstance(ty, tuple) and ty[0] == "L"):
                raise Unsupported("combinations of a non-list")
            return f"(py_combinations2 {t})", L(T(ty[1], ty[1]))
        if f == "enumerate" and len(e.args) == 1 and not e.keywords:
            t, ty = fn.expr(e.args[0], env, hoist, pure)
            if not (isinstance(ty, tuple) and ty[0] == "L"):
                raise Unsupported("enumerate of a non-list")
            return f"(py_enumerate {t})", L(T(N, ty[1]))
        if f in ("sparse.coo_array", "sparse.coo_matrix", "coo_array", "coo_matrix"):
            kws = {k.arg: k.value for k in e.keywords}
            if len(e.args) != 1 or set(kws) != {"shape", "dtype"} or ast.unparse(kws["dtype"]) not in ("np.int8", "np.int16", "np.int32", "np.int64", "int"):
                raise Unsupported("coo_array call shape")
            a = e.args[0]
            if not (isinstance(a, ast.Tuple) and len(a.elts) == 2 and isinstance(a.elts[1], ast.Tuple) and len(a.elts[1].elts) == 2):
                raise Unsupported("coo_array data argument")
            sh = kws["shape"]
            if not (isinstance(sh, ast.Tuple) and len(sh.elts) == 2):
                raise Unsupported("coo_array shape")
            d, td = fn.expr(a.elts[0], env, hoist, pure)
            i, ti = fn.expr(a.elts[1].elts[0], env, hoist, pure)
            j, tj = fn.expr(a.elts[1].elts[1], env, hoist, pure)
            r, tr = fn.expr(sh.elts[0], env, hoist, pure)
            c, tc = fn.expr(sh.elts[1], env, hoist, pure)
            if td == ("L", None):
                td = L(Q)
            if ti == ("L", None):
                ti = L(N)
            if tj == ("L", None):
                tj = L(N)
            if (td, ti, tj, tr, tc) != (L(Q), L(N), L(N), Z, Z):
                raise Unsupported(f"coo_array argument types {(td, ti, tj, tr, tc)}")
            return f"(mk_coo {d} {i} {j} {r} {c})", COO
    return None


def rewrite_defaultdict_of_sequences(node: ast.FunctionDef, tree) -> ast.FunctionDef:
    """D = defaultdict(data.Sequence); …; x = D[k]; x.sound_events.append(v); …; list(D.values())
    A defaultdict that is only ever used through `D[k].sound_events.append(v)` and read through `list(D.values())` is
    represented by the log of its (k, v) insertions; `values()` is computed from the log (dd_values: one list per
    key, keys in order of first insertion, values in order of insertion).  Anything else done to D, to x or to the
    default of Sequence.sound_events makes the unit unreadable."""
    # data.Sequence().sound_events must start as an empty list
    seq_tree = tree("data/sequences.py")
    ok = False
    for n in seq_tree.body:
        if isinstance(n, ast.ClassDef) and n.name == "Sequence":
            for m in n.body:
                if isinstance(m, ast.AnnAssign) and isinstance(m.target, ast.Name) and m.target.id == "sound_events" and m.value is not None:
                    ok = ast.unparse(m.value).replace(" ", "") in ("Field(default_factory=list)", "[]")
    if not ok:
        raise Unsupported("Sequence.sound_events does not default to an empty list")
    dd = None
    for st in node.body:
        if (isinstance(st, ast.Assign) and len(st.targets) == 1 and isinstance(st.targets[0], ast.Name) and isinstance(st.value, ast.Call)
                and ast.unparse(st.value) in ("defaultdict(data.Sequence)", "collections.defaultdict(data.Sequence)", "defaultdict(Sequence)")):
            if dd is not None:
                raise Unsupported("two defaultdicts")
            dd = st.targets[0].id
            st.value = ast.List(elts=[], ctx=ast.Load())
    if dd is None:
        raise Unsupported("no defaultdict(data.Sequence)")

    def rewrite_block(stmts):
        out, i = [], 0
        while i < len(stmts):
            st = stmts[i]
            nxt = stmts[i + 1] if i + 1 < len(stmts) else None
            if (isinstance(st, ast.Assign) and len(st.targets) == 1 and isinstance(st.targets[0], ast.Name) and isinstance(st.value, ast.Subscript)
                    and isinstance(st.value.value, ast.Name) and st.value.value.id == dd):
                x = st.targets[0].id
                if not (isinstance(nxt, ast.Expr) and isinstance(nxt.value, ast.Call) and isinstance(nxt.value.func, ast.Attribute) and nxt.value.func.attr == "append"
                        and isinstance(nxt.value.func.value, ast.Attribute) and nxt.value.func.value.attr == "sound_events"
                        and isinstance(nxt.value.func.value.value, ast.Name) and nxt.value.func.value.value.id == x
                        and len(nxt.value.args) == 1 and not nxt.value.keywords):
                    raise Unsupported("entry of the defaultdict used otherwise than by .sound_events.append(v)")
                if any(isinstance(z, ast.Name) and z.id == x for later in stmts[i + 2:] for z in ast.walk(later)):
                    raise Unsupported("entry of the defaultdict used again")
                if any(isinstance(z, ast.Name) and z.id in (x, dd) for z in ast.walk(nxt.value.args[0])) or any(isinstance(z, ast.Name) and z.id in (x, dd) for z in ast.walk(st.value.slice)):
                    raise Unsupported("defaultdict entry in its own key or value")
                out.append(ast.Expr(value=ast.Call(func=ast.Attribute(value=ast.Name(id=dd, ctx=ast.Load()), attr="append", ctx=ast.Load()),
                                                   args=[ast.Tuple(elts=[st.value.slice, nxt.value.args[0]], ctx=ast.Load())], keywords=[])))
                i += 2
                continue
            if isinstance(st, ast.For):
                st.body = rewrite_block(st.body)
                if st.orelse:
                    raise Unsupported("for/else")
            elif isinstance(st, ast.If):
                st.body = rewrite_block(st.body)
                st.orelse = rewrite_block(st.orelse)
            elif isinstance(st, (ast.While, ast.With, ast.Try, ast.FunctionDef)):
                raise Unsupported(f"{type(st).__name__} in a function with a defaultdict")
            out.append(st)
            i += 1
        return out

    node.body = rewrite_block(node.body)

    class _V(ast.NodeTransformer):
        def visit_Call(self, c):
            self.generic_visit(c)
            if (isinstance(c.func, ast.Name) and c.func.id == "list" and len(c.args) == 1 and not c.keywords and isinstance(c.args[0], ast.Call)
                    and isinstance(c.args[0].func, ast.Attribute) and c.args[0].func.attr == "values" and isinstance(c.args[0].func.value, ast.Name)
                    and c.args[0].func.value.id == dd and not c.args[0].args and not c.args[0].keywords):
                return ast.Call(func=ast.Name(id="dd_values_", ctx=ast.Load()), args=[ast.Name(id=dd, ctx=ast.Load())], keywords=[])
            return c

    node = _V().visit(node)
    # every remaining use of D: its initialisation, D.append((k, v)) statements, dd_values_(D)
    allowed = 0
    for z in ast.walk(node):
        if isinstance(z, ast.Assign) and len(z.targets) == 1 and isinstance(z.targets[0], ast.Name) and z.targets[0].id == dd:
            allowed += 1
        if isinstance(z, ast.Expr) and isinstance(z.value, ast.Call) and isinstance(z.value.func, ast.Attribute) and z.value.func.attr == "append" and isinstance(z.value.func.value, ast.Name) and z.value.func.value.id == dd:
            allowed += 1
        if isinstance(z, ast.Call) and isinstance(z.func, ast.Name) and z.func.id == "dd_values_":
            allowed += 1
    uses = sum(1 for z in ast.walk(node) if isinstance(z, ast.Name) and z.id == dd)
    if uses != allowed:
        raise Unsupported("the defaultdict is used in a way the translator does not read")
    return ast.fix_missing_locations(node)


def group_handler(fn, e, env, hoist, pure):
    """zip(a, b) -> pairs up to the shorter list; dd_values_(log) (see rewrite_defaultdict_of_sequences);
    connected_components(m) -> the library function, a parameter of the definition: (number of components, labels);
    a name of function type passed on to a helper"""
    if isinstance(e, ast.Name) and e.id in fn.iface.get("fn_names", ()):
        return e.id, "Fn"
    if isinstance(e, ast.Call) and isinstance(e.func, ast.Name):
        if e.func.id == "zip" and len(e.args) == 2 and not e.keywords:
            a, ta = fn.expr(e.args[0], env, hoist, pure)
            b, tb = fn.expr(e.args[1], env, hoist, pure)
            if not (isinstance(ta, tuple) and ta[0] == "L" and isinstance(tb, tuple) and tb[0] == "L"):
                raise Unsupported("zip of non-lists")
            return f"(combine {a} {b})", L(T(ta[1], tb[1]))
        if e.func.id == "dd_values_" and len(e.args) == 1:
            a, ta = fn.expr(e.args[0], env, hoist, pure)
            if ta == ("L", None):
                ta = L(T(N, Z))
            if ta != L(T(N, Z)):
                raise Unsupported(f"defaultdict log of type {ta}")
            return f"(dd_values {a})", L(L(Z))
    return None


def slice_path_field(node: ast.FunctionDef, tree) -> ast.FunctionDef:
    """The `path` field of the object an adapter method returns: the statements from the first assignment of `path` up to
    the final `return Cls(…, path=path, …)`, with `self.audio_dir` and `obj.path` as the parameters audio_dir / obj_path.
    Fail-closed: the method must end in a return of a constructor call that passes the local `path` as keyword `path`,
    and nothing before the first assignment may bind `path`."""
    body = list(node.body)
    if not body or not isinstance(body[-1], ast.Return) or not isinstance(body[-1].value, ast.Call):
        raise Unsupported("method does not end in `return Cls(...)`")
    ret = body[-1]
    kw = [k for k in ret.value.keywords if k.arg == "path"]
    if len(kw) != 1 or not (isinstance(kw[0].value, ast.Name) and kw[0].value.id == "path") or any(k.arg is None for k in ret.value.keywords):
        raise Unsupported("the returned object does not take path=path")
    first = None
    for i, st in enumerate(body[:-1]):
        if isinstance(st, ast.Assign) and len(st.targets) == 1 and isinstance(st.targets[0], ast.Name) and st.targets[0].id == "path":
            first = i
            break
        if any(isinstance(z, ast.Name) and z.id == "path" for z in ast.walk(st)):
            raise Unsupported("`path` used before its first plain assignment")
    if first is None:
        raise Unsupported("no assignment of `path`")

    class _V(ast.NodeTransformer):
        def visit_Attribute(self, a):
            if isinstance(a.value, ast.Name) and a.value.id == "self" and a.attr == "audio_dir":
                return ast.Name(id="audio_dir", ctx=ast.Load())
            if isinstance(a.value, ast.Name) and a.value.id == "obj" and a.attr == "path":
                return ast.Name(id="obj_path", ctx=ast.Load())
            self.generic_visit(a)
            return a

    # backward slice on `path`: a statement that only binds locals (plain names; assignments and ifs; no call, no store
    # into an attribute or a subscript, nothing that can have an effect) and binds none that the path computation reads
    # cannot influence `path` — e.g. `time_expansion = None; if obj.time_expansion != 1.0: time_expansion = …` — and is
    # left out; everything else is kept (and makes the unit unreadable if the translator cannot read it)
    def pure_local(st):
        for z in ast.walk(st):
            if isinstance(z, (ast.Call, ast.Await, ast.Yield, ast.YieldFrom, ast.NamedExpr, ast.Lambda, ast.Delete, ast.Raise, ast.Return,
                              ast.For, ast.While, ast.With, ast.Try, ast.Import, ast.ImportFrom, ast.Global, ast.Nonlocal, ast.Assert,
                              ast.FunctionDef, ast.ClassDef, ast.Break, ast.Continue)):
                return False
            if isinstance(z, (ast.Attribute, ast.Subscript, ast.Starred)) and isinstance(z.ctx, (ast.Store, ast.Del)):
                return False
        return isinstance(st, (ast.Assign, ast.AnnAssign, ast.AugAssign, ast.If, ast.Pass))

    needed = {"path"}
    kept = []
    for st in reversed(body[first:-1]):
        writes = {z.id for z in ast.walk(st) if isinstance(z, ast.Name) and isinstance(z.ctx, ast.Store)}
        if (writes & needed) or not pure_local(st):
            kept.append(st)
            needed |= {z.id for z in ast.walk(st) if isinstance(z, ast.Name) and isinstance(z.ctx, ast.Load)}
    kept.reverse()
    sl = [_V().visit(st) for st in kept]
    for st in sl:
        for z in ast.walk(st):
            if isinstance(z, ast.Name) and z.id in ("self", "obj"):
                raise Unsupported("the path computation reads something else than self.audio_dir and obj.path")
            if isinstance(z, ast.Name) and isinstance(z.ctx, ast.Store) and z.id != "path":
                raise Unsupported(f"the path computation assigns {z.id}")
    node.args = ast.arguments(posonlyargs=[], args=[], vararg=None, kwonlyargs=[], kw_defaults=[], kwarg=None, defaults=[])
    node.body = sl + [ast.Return(value=ast.Name(id="path", ctx=ast.Load()))]
    node.decorator_list = []
    return ast.fix_missing_locations(node)


def path_handler(fn, e, env, hoist, pure):
    """pathlib on lists of components (Aoef/Paths.v): Path(p) is p; p.relative_to(d) strips the prefix or raises ValueError;
    d / p joins (an absolute right operand replaces the left one)"""
    if isinstance(e, ast.Call) and isinstance(e.func, ast.Name) and e.func.id in ("Path", "PurePath") and len(e.args) == 1 and not e.keywords:
        t, ty = fn.expr(e.args[0], env, hoist, pure)
        if ty == PTH:
            return t, PTH
        raise Unsupported("Path() of something else than a path")
    if isinstance(e, ast.Call) and isinstance(e.func, ast.Attribute) and e.func.attr == "relative_to" and len(e.args) == 1 and not e.keywords:
        t, ty = fn.expr(e.func.value, env, hoist, pure)
        d, td = fn.expr(e.args[0], env, hoist, pure)
        if ty == PTH and td == PTH:
            if pure:
                raise Unsupported("relative_to in a position that cannot fail")
            name = fn.gensym("rel")
            hoist.append((name, f"py_relative_to {t} {d}", PTH))
            return name, PTH
        raise Unsupported("relative_to on something else than paths")
    if isinstance(e, ast.BinOp) and isinstance(e.op, ast.Div):
        h2 = []
        try:
            l, tl = fn.expr(e.left, env, h2, pure)
            r, tr = fn.expr(e.right, env, h2, pure)
        except Unsupported:
            return None
        if tl == PTH and tr == PTH:
            hoist.extend(h2)
            return f"(py_path_join {l} {r})", PTH
    return None


def slice_load_clip_plan(node: ast.FunctionDef, tree) -> ast.FunctionDef:
    """What load_clip asks of the file and says about the result: the backward slice of its body on the locals handed to
    load_audio(offset=…, samples=…) and to create_time_range(start_time=…, end_time=…, samplerate=…), returned as the tuple
    (offset, samples, start_time, end_time).  `clip.start_time`, `clip.end_time` and `recording.samplerate` are the parameters.
    Fail-closed: exactly one call of load_audio and one of create_time_range, each taking those keywords as plain local names."""
    calls = {"load_audio": [], "create_time_range": []}
    for z in ast.walk(node):
        if isinstance(z, ast.Call) and isinstance(z.func, ast.Name) and z.func.id in calls:
            calls[z.func.id].append(z)
    if len(calls["load_audio"]) != 1 or len(calls["create_time_range"]) != 1:
        raise Unsupported("load_clip does not call load_audio and create_time_range exactly once each")

    def kw_name(call, k):
        v = [x.value for x in call.keywords if x.arg == k]
        if len(v) != 1 or not isinstance(v[0], ast.Name):
            raise Unsupported(f"{call.func.id}: keyword {k} is not a plain local")
        return v[0].id

    la, tr = calls["load_audio"][0], calls["create_time_range"][0]
    if any(k.arg is None for k in la.keywords + tr.keywords) or len(la.args) > 1 or tr.args:
        raise Unsupported("load_audio / create_time_range called with * or positionally")
    outs = [kw_name(la, "offset"), kw_name(la, "samples"), kw_name(tr, "start_time"), kw_name(tr, "end_time")]
    sr_name = kw_name(tr, "samplerate")
    if {k.arg for k in tr.keywords} != {"start_time", "end_time", "samplerate"}:
        raise Unsupported("create_time_range takes other keywords")
    body = list(node.body)
    if not isinstance(body[-1], ast.Return):
        raise Unsupported("load_clip does not end in a return")

    def pure_local(st):
        for z in ast.walk(st):
            if isinstance(z, (ast.Await, ast.Yield, ast.YieldFrom, ast.NamedExpr, ast.Lambda, ast.Delete, ast.Raise, ast.Return, ast.For, ast.While,
                              ast.With, ast.Try, ast.Import, ast.ImportFrom, ast.Global, ast.Nonlocal, ast.Assert, ast.FunctionDef, ast.ClassDef)):
                return False
            if isinstance(z, (ast.Attribute, ast.Subscript, ast.Starred)) and isinstance(z.ctx, (ast.Store, ast.Del)):
                return False
            if isinstance(z, ast.Call) and not (isinstance(z.func, ast.Name) and z.func.id in ("load_audio", "Path", "int", "float", "str")
                                                or ast.unparse(z.func) in ("np.floor", "np.ceil", "math.floor")):
                return False
        return isinstance(st, (ast.Assign, ast.AnnAssign, ast.If, ast.Pass, ast.Expr))

    needed = set(outs) | {sr_name}
    kept = []
    for st in reversed(body[:-1]):
        if isinstance(st, ast.Expr) and isinstance(st.value, ast.Constant):
            continue
        writes = {z.id for z in ast.walk(st) if isinstance(z, ast.Name) and isinstance(z.ctx, ast.Store)}
        if writes & needed:
            if any(isinstance(z, ast.Call) and isinstance(z.func, ast.Name) and z.func.id == "load_audio" for z in ast.walk(st)):
                raise Unsupported("a local the plan depends on comes from load_audio")
            kept.append(st)
            needed |= {z.id for z in ast.walk(st) if isinstance(z, ast.Name) and isinstance(z.ctx, ast.Load)}
        elif not pure_local(st):
            raise Unsupported(f"statement with possible effects before the return: {ast.unparse(st)[:60]}")
    kept.reverse()

    class _V(ast.NodeTransformer):
        def visit_Attribute(self, a):
            t = ast.unparse(a)
            if t in ("clip.start_time", "clip.end_time", "recording.samplerate", "clip.recording.samplerate"):
                return ast.Name(id=t.replace("clip.recording.", "recording.").replace(".", "_"), ctx=ast.Load())
            if t == "clip.recording":
                return ast.Name(id="recording", ctx=ast.Load())
            self.generic_visit(a)
            return a

    kept = [_V().visit(st) for st in kept]
    kept = [st for st in kept if not (isinstance(st, ast.Assign) and isinstance(st.targets[0], ast.Name) and st.targets[0].id == "recording"
                                      and isinstance(st.value, ast.Name) and st.value.id == "recording")]
    for st in kept:
        for z in ast.walk(st):
            if isinstance(z, ast.Name) and z.id in ("clip", "recording", "audio_dir"):
                raise Unsupported(f"the plan reads {z.id} otherwise than through start_time / end_time / samplerate")
    node.args = ast.arguments(posonlyargs=[], args=[], vararg=None, kwonlyargs=[], kw_defaults=[], kwarg=None, defaults=[])
    node.body = kept + [ast.Return(value=ast.Tuple(elts=[ast.Name(id=n, ctx=ast.Load()) for n in outs], ctx=ast.Load()))]
    node.decorator_list = []
    return ast.fix_missing_locations(node)


def floor_handler(fn, e, env, hoist, pure):
    """int(np.floor(x)) -> Qfloor x (an integer)"""
    if (isinstance(e, ast.Call) and isinstance(e.func, ast.Name) and e.func.id == "int" and len(e.args) == 1 and not e.keywords
            and isinstance(e.args[0], ast.Call) and ast.unparse(e.args[0].func) in ("np.floor", "math.floor") and len(e.args[0].args) == 1 and not e.args[0].keywords):
        t, ty = fn.expr(e.args[0].args[0], env, hoist, pure)
        if ty == LIT:
            t, ty = qlit(t), Q
        return f"(Qround.Qfloor {fn.coerce(t, ty, Q)})", Z
    return None


def mat_handler(fn, e, env, hoist, pure):
    """cost_matrix[i, j] on the affinity matrix (a numpy array indexed by a pair of ints)"""
    if isinstance(e, ast.Subscript) and isinstance(e.value, ast.Name) and e.value.id in env and env[e.value.id][1] == ("M",) and isinstance(e.slice, ast.Tuple) and len(e.slice.elts) == 2:
        i, ti = fn.expr(e.slice.elts[0], env, hoist, pure)
        j, tj = fn.expr(e.slice.elts[1], env, hoist, pure)
        if ti == N and tj == N:
            return f"(mget {env[e.value.id][0]} {i} {j})", Q
    return None


# ---------------------------------------------------------------- units (what is translated, and its interface)
def find_function(tree: ast.Module, qual: str) -> ast.FunctionDef:
    parts = qual.split(".")
    body = tree.body
    node = None
    for p in parts:
        node = None
        for n in body:
            if isinstance(n, (ast.FunctionDef, ast.ClassDef)) and n.name == p:
                node = n
                break
        if node is None:
            raise Unsupported(f"{qual} not found")
        body = node.body
    if not isinstance(node, ast.FunctionDef):
        raise Unsupported(f"{qual} is not a function")
    return node


def find_function_last(tree: ast.Module, name: str) -> ast.FunctionDef:
    """the last top-level definition of a name (the one that is in force; earlier ones may be @overload stubs)"""
    found = None
    for n in tree.body:
        if isinstance(n, ast.FunctionDef) and n.name == name:
            found = n
    if found is None:
        raise Unsupported(f"{name} not found")
    if found.decorator_list:
        raise Unsupported(f"{name} is decorated")
    return found


def class_validators(tree: ast.Module, cls: str, field: str) -> list[str]:
    """names of the @field_validator(field) methods of a class, in source order (= pydantic's run order)"""
    out = []
    for n in tree.body:
        if isinstance(n, ast.ClassDef) and n.name == cls:
            for m in n.body:
                if isinstance(m, ast.FunctionDef):
                    for d in m.decorator_list:
                        if isinstance(d, ast.Call) and isinstance(d.func, ast.Name) and d.func.id == "field_validator":
                            fields = [x.value for x in d.args if isinstance(x, ast.Constant)]
                            if d.keywords:
                                raise Unsupported(f"{cls}.{m.name}: field_validator with keywords")
                            if field in fields:
                                out.append(m.name)
                        elif isinstance(d, ast.Name) and d.id in ("classmethod",):
                            pass
                        else:
                            raise Unsupported(f"{cls}.{m.name}: decorator {ast.unparse(d)}")
            return out
    raise Unsupported(f"class {cls} not found")


def module_const(tree: ast.Module, name: str):
    for n in tree.body:
        if isinstance(n, ast.Assign) and len(n.targets) == 1 and isinstance(n.targets[0], ast.Name) and n.targets[0].id == name:
            return n.value
    raise Unsupported(f"constant {name} not found")


GEOM_CLASSES = [
    ("TimeStamp", "TTimeStamp", "Q"),
    ("TimeInterval", "TTimeInterval", "L(Q)"),
    ("Point", "TPoint", "L(Q)"),
    ("LineString", "TLineString", "L(L(Q))"),
    ("Polygon", "TPolygon", "L(L(L(Q)))"),
    ("BoundingBox", "TBBox", "L(Q)"),
    ("MultiPoint", "TMultiPoint", "L(L(Q))"),
    ("MultiLineString", "TMultiLineString", "L(L(L(Q)))"),
    ("MultiPolygon", "TMultiPolygon", "L(L(L(L(Q))))"),
]
TYPE_STRINGS = {c: t for c, t, _ in GEOM_CLASSES}

BOUNDS_CALL = {"coq": "py_compute_bounds", "args": ["G"], "ret": "T(Q,Q,Q,Q)", "monadic": True}


CANON_PATH = Path(__file__).with_name("pygen_canonical.json")
try:
    import json as _json

    CANONICAL = _json.loads(CANON_PATH.read_text())
except (OSError, ValueError):
    CANONICAL = {}


def generate(src_root: Path) -> tuple[str, dict]:
    """returns (text of Gen/Source.v, report).  report['units'][name] = 'translated' | 'unreadable: why'.
    An unreadable unit is defined as its hand-written model (so the development still builds) and is
    reported: for that unit the tie to the code is the correspondence alone."""
    out = [
        "(* Gen/Source.v — GENERATED by harness/pygen.py from /repo/src on every run; do not edit. *)",
        "From SE Require Export Gen.Prelude.",
        "From SE Require Import Geom.Ops Misc.SegmentClip Eval.Affinity Geom.Validate Eval.Match.",
        "Open Scope Q_scope.",
        "",
    ]
    report = {"units": {}, "source_files": []}
    trees = {}

    def tree(rel):
        if rel not in trees:
            p = src_root / "soundevent" / rel
            trees[rel] = ast.parse(p.read_text())
            report["source_files"].append(str(p))
        return trees[rel]

    texts = report.setdefault("texts", {})

    def emit(name, txt, header):
        texts[name] = txt
        out.append(header)
        out.append(txt)
        out.append("")

    def fall_back(name, why):
        """the unit cannot be read: use the translation of the pinned tree (harness/pygen_canonical.json), say so"""
        report["units"][name] = f"unreadable: {why}"
        if name not in CANONICAL:
            raise RuntimeError(f"no canonical text for {name}")
        out.append(f"(* {name}: the source could not be read ({str(why)[:200]}); this is the translation of the pinned tree *)")
        out.append(CANONICAL[name])
        out.append("")

    def unit(name, rel, qual, iface, fallback=None):
        try:
            ctx = Ctx(src_root, rel, tree(rel), qual.split(".")[0] if "." in qual else None, name, iface.get("consts", {}), tree)
            ctx.calls, ctx.strings = iface.get("calls", {}), iface.get("strings", {})
            ctx.custom = iface.get("custom", [])
            node_ = find_function(tree(rel), qual)
            if iface.get("rewrite"):
                import copy as _copy

                node_ = iface["rewrite"](_copy.deepcopy(node_), tree)
            fn = Fn(node_, iface, name, ctx)
            txt = fn.translate()
            report["units"][name] = "translated"
            emit(name, "\n".join(ctx.emitted + [txt]), f"(* from soundevent/{rel} :: {qual} *)")
        except Unsupported as ex:
            fall_back(name, ex)
        except (SyntaxError, OSError, KeyError, IndexError, AttributeError, TypeError, ValueError, RecursionError) as ex:
            fall_back(name, f"{type(ex).__name__}: {ex}")

    # ---- constants
    try:
        v = module_const(tree("data/geometries.py"), "MAX_FREQUENCY")
        if not (isinstance(v, ast.Constant) and isinstance(v.value, (int, float)) and not isinstance(v.value, bool)):
            raise Unsupported("MAX_FREQUENCY is not a numeric literal")
        report["units"]["MAX_FREQUENCY"] = "translated"
        emit("MAX_FREQUENCY", f"Definition MAX_FREQUENCY : Q := {qlit(Fraction(str(v.value)) if isinstance(v.value, float) else v.value)}.", "(* from soundevent/data/geometries.py *)")
    except (Unsupported, OSError, SyntaxError) as ex:
        fall_back("MAX_FREQUENCY", ex)

    def type_set(rel, name, fallback):
        try:
            v = module_const(tree(rel), name)
            if not isinstance(v, (ast.Set, ast.List, ast.Tuple)):
                raise Unsupported("not a set display")
            items = []
            for x in v.elts:
                p = ast.unparse(x)
                ok = False
                for c, t, _ in GEOM_CLASSES:
                    if p == f"data.{c}.geom_type()":
                        items.append(t)
                        ok = True
                if not ok:
                    raise Unsupported(f"member {p}")
            report["units"][name] = "translated"
            emit(name, f"Definition {name} : list gtype := [{'; '.join(items)}].", f"(* from soundevent/{rel} *)")
        except (Unsupported, OSError, SyntaxError) as ex:
            fall_back(name, ex)

    consts = {"data.MAX_FREQUENCY": ("MAX_FREQUENCY", "Q"), "MAX_FREQUENCY": ("MAX_FREQUENCY", "Q")}

    # ---- C03: the validators of the nine geometry classes, composed in source order
    for cls, _t, ctype in GEOM_CLASSES:
        rel = "data/geometries.py"
        try:
            names = class_validators(tree(rel), cls, "coordinates")
            if not names:
                raise Unsupported("no validators")
            defs = []
            for m in names:
                ctx = Ctx(src_root, rel, tree(rel), cls, f"{cls}_{m}", consts, tree)
                fn = Fn(find_function(tree(rel), f"{cls}.{m}"), {"ret": ctype, "params": {"v": ctype}, "consts": consts}, f"{cls}_{m}", ctx)
                txt_m = fn.translate()
                defs.extend(ctx.emitted)
                defs.append(txt_m)
            txt = "Ok v"
            for m in reversed(names):
                txt = f"bind ({cls}_{m} v) (fun v =>\n{txt})"
            defs.append(f"Definition {cls}_validate (v : {coq_type(parse_type(ctype))}) : res {coq_type(parse_type(ctype))} :=\n{txt}.")
            report["units"][f"{cls}_validate"] = "translated"
            emit(f"{cls}_validate", "\n".join(defs), f"(* from soundevent/{rel} :: class {cls}, field validators in source order: {', '.join(names)} *)")
        except (Unsupported, OSError, SyntaxError, KeyError, IndexError, AttributeError, TypeError, ValueError, RecursionError) as ex:
            fall_back(f"{cls}_validate", ex)

    # ---- C12
    unit("intervals_overlap", "geometry/operations.py", "intervals_overlap",
         {"params": {"interval1": "T(Q,Q)", "interval2": "T(Q,Q)", "min_absolute_overlap": "O(Q)", "min_relative_overlap": "O(Q)"}, "ret": "B"},
         "Definition intervals_overlap (interval1 interval2 : Q * Q) (min_absolute_overlap min_relative_overlap : option Q) : res bool :=\n"
         "  Ops.intervals_overlap (fst interval1) (snd interval1) (fst interval2) (snd interval2) min_absolute_overlap min_relative_overlap.")
    io_call = {"coq": "intervals_overlap", "args": ["T(Q,Q)", "T(Q,Q)", "O(Q)", "O(Q)"], "argnames": ["interval1", "interval2", "min_absolute_overlap", "min_relative_overlap"],
               "defaults": {"min_absolute_overlap": "None", "min_relative_overlap": "None"}, "ret": "B", "monadic": True}
    for nm in ("have_temporal_overlap", "have_frequency_overlap"):
        unit(nm, "geometry/operations.py", nm,
             {"params": {"geom1": "G", "geom2": "G", "min_absolute_overlap": "O(Q)", "min_relative_overlap": "O(Q)"}, "ret": "B",
              "calls": {"compute_bounds": BOUNDS_CALL, "intervals_overlap": io_call}},
             f"Definition {nm} (geom1 geom2 : geom) (min_absolute_overlap min_relative_overlap : option Q) : res bool :=\n"
             f"  Ops.{nm} geom1 geom2 min_absolute_overlap min_relative_overlap.")
    unit("is_in_clip", "geometry/operations.py", "is_in_clip",
         {"params": {"geometry": "G", "minimum_overlap": "Q"}, "attrs": {"clip.start_time": "Q", "clip.end_time": "Q"}, "ret": "B",
          "calls": {"compute_bounds": BOUNDS_CALL}},
         "Definition is_in_clip (geometry : geom) (clip_start_time clip_end_time minimum_overlap : Q) : res bool :=\n"
         "  Ops.is_in_clip geometry clip_start_time clip_end_time minimum_overlap.")

    # ---- C11: closed forms and the dispatch
    ctor = {"data.TimeInterval": {"coq": "mk_TimeInterval", "args": ["L(Q)"], "argnames": ["coordinates"], "ret": "G", "monadic": True},
            "data.BoundingBox": {"coq": "mk_BoundingBox", "args": ["L(Q)"], "argnames": ["coordinates"], "ret": "G", "monadic": True}}
    unit("buffer_timestamp", "geometry/operations.py", "buffer_timestamp",
         {"attrs": {"geometry.coordinates": "Q"}, "params": {"time_buffer": "Q"}, "ret": "G", "calls": ctor, "consts": consts},
         "Definition buffer_timestamp (geometry_coordinates time_buffer : Q) : res geom := Ok (Buffer.buffer_timestamp geometry_coordinates time_buffer).")
    unit("buffer_interval", "geometry/operations.py", "buffer_interval",
         {"attrs": {"geometry.coordinates": "T(Q,Q)"}, "params": {"time_buffer": "Q"}, "ret": "G", "calls": ctor, "consts": consts},
         "Definition buffer_interval (geometry_coordinates : Q * Q) (time_buffer : Q) : res geom :=\n"
         "  Ok (Buffer.buffer_interval (fst geometry_coordinates) (snd geometry_coordinates) time_buffer).")
    unit("buffer_bounding_box_geometry", "geometry/operations.py", "buffer_bounding_box_geometry",
         {"attrs": {"geometry.coordinates": "T(Q,Q,Q,Q)"}, "params": {"time_buffer": "Q", "freq_buffer": "Q"}, "ret": "G", "calls": ctor, "consts": consts},
         "Definition buffer_bounding_box_geometry (geometry_coordinates : Q * Q * Q * Q) (time_buffer freq_buffer : Q) : res geom :=\n"
         "  let '(s, lo, e, hi) := geometry_coordinates in Ok (Buffer.buffer_bbox s lo e hi time_buffer freq_buffer).")
    # glue: how buffer_geometry's callees receive a geometry object
    out.append("(* glue (from the translator's interface table): the helpers applied to a geometry object *)")
    out.append("Definition on_timestamp (g : geom) (tb : Q) : res buffered :=\n  match g with TimeStamp t => bind (buffer_timestamp t tb) (fun r => Ok (Closed r)) | _ => Err EOther end.")
    out.append("Definition on_interval (g : geom) (tb : Q) : res buffered :=\n  match g with TimeInterval s e => bind (buffer_interval (s, e) tb) (fun r => Ok (Closed r)) | _ => Err EOther end.")
    out.append("Definition on_bbox (g : geom) (tb fb : Q) : res buffered :=\n  match g with BBox s lo e hi => bind (buffer_bounding_box_geometry (s, lo, e, hi) tb fb) (fun r => Ok (Closed r)) | _ => Err EOther end.")
    out.append("Definition on_shapely (s : shp) (tb fb : Q) : res buffered := Ok Shapely.")
    out.append("")
    unit("buffer_geometry", "geometry/operations.py", "buffer_geometry",
         {"params": {"geometry": "G", "time_buffer": "Q", "freq_buffer": "Q"}, "drop_params": ["kwargs"], "ret": "Buf", "strings": TYPE_STRINGS,
          "calls": {"buffer_timestamp": {"coq": "on_timestamp", "args": ["G", "Q"], "argnames": ["geometry", "time_buffer"], "ret": "Buf", "monadic": True},
                    "buffer_interval": {"coq": "on_interval", "args": ["G", "Q"], "argnames": ["geometry", "time_buffer"], "ret": "Buf", "monadic": True},
                    "buffer_bounding_box_geometry": {"coq": "on_bbox", "args": ["G", "Q", "Q"], "argnames": ["geometry", "time_buffer", "freq_buffer"], "ret": "Buf", "monadic": True},
                    "geometry_to_shapely": {"coq": "to_shapely", "args": ["G"], "ret": "Shp"},
                    "buffer_shapely_geometry": {"coq": "on_shapely", "args": ["Shp", "Q", "Q"], "argnames": ["geometry", "time_buffer", "freq_buffer"], "ret": "Buf", "monadic": True, "ignore_starred": True}}},
         "Definition buffer_geometry (geometry : geom) (time_buffer freq_buffer : Q) : res buffered := Buffer.buffer_geometry geometry time_buffer freq_buffer.")

    # ---- C06
    type_set("evaluation/affinity.py", "TIME_GEOMETRY_TYPES", "[TTimeStamp; TTimeInterval]")
    type_set("evaluation/affinity.py", "BUFFER_GEOMETRY_TYPES", "[TTimeStamp; TPoint; TMultiPoint; TLineString; TMultiLineString]")
    # the area branch of compute_affinity: everything up to `shp2 = geometry_to_shapely(geometry2)` is skipped (preparation and
    # dispatch are C06's correspondence); the two areas and the intersection area, GEOS quantities, are parameters
    unit("compute_affinity_area_tail", "evaluation/affinity.py", "compute_affinity",
         {"drop_params": ["geometry1", "geometry2", "time_buffer", "freq_buffer"], "skip_until_assigned": "shp2",
          "extra_params": {"area1": "Q", "area2": "Q", "inter_area": "Q"}, "custom": [area_handler], "ret": "Q"})
    unit("compute_affinity_in_time", "evaluation/affinity.py", "compute_affinity_in_time",
         {"params": {"geometry1": "G", "geometry2": "G"}, "ret": "Q", "calls": {"compute_bounds": BOUNDS_CALL}},
         "Definition compute_affinity_in_time (geometry1 geometry2 : geom) : res Q :=\n"
         "  bind (py_compute_bounds geometry1) (fun '(s1, _, e1, _) => bind (py_compute_bounds geometry2) (fun '(s2, _, e2, _) => Ok (affinity_time s1 e1 s2 e2))).")

    # ---- C14
    unit("segment_clip", "operations.py", "segment_clip",
         {"attrs": {"clip.uuid": "Z", "clip.start_time": "Q", "clip.end_time": "Q"}, "params": {"duration": "Q", "hop": "O(Q)", "include_incomplete": "B"},
          "generator": True, "ret": "Seg", "consts": {"uuid_namespace": ("0%Z", "Z"), "clip.recording": ("tt", "U")},
          "calls": {"uuid.uuid5": {"coq": "py_uuid5", "args": ["Z", "F"], "ret": "Id"},
                    "data.Clip": {"coq": "mk_Clip", "args": ["Id", "Q", "Q"], "argnames": ["uuid", "start_time", "end_time"], "ignore_kw": ["recording"], "ret": "Seg", "monadic": True}}},
         "Definition segment_clip (fuel : nat) (clip_uuid : Z) (clip_start_time clip_end_time duration : Q) (hop : option Q) (include_incomplete : bool) : option (res (list segclip)) := None.")
    # ---- C19: the three encodings over an encoder given by its `encode` function and `num_classes`
    enc = {"encoder.encode": {"coq": "encoder_encode", "args": ["Tag"], "ret": "O(N)"}}
    fp = {"encoder_encode": "tag -> option nat"}
    unit("classification_encoding", "evaluation/encoding.py", "classification_encoding",
         {"params": {"tags": "L(Tag)"}, "drop_params": ["encoder"], "fparams": fp, "calls": enc, "ret": "O(N)"})
    unit("multilabel_encoding", "evaluation/encoding.py", "multilabel_encoding",
         {"params": {"tags": "L(Tag)"}, "attrs": {"encoder.num_classes": "N"}, "fparams": fp, "ret": "L(Z)",
          "calls": dict(enc, **{"np.zeros": {"coq": "zeros_z", "args": ["N"], "ignore_kw": ["dtype"], "ret": "L(Z)"}})})
    unit("prediction_encoding", "evaluation/encoding.py", "prediction_encoding",
         {"params": {"tags": "L(R{tag:Tag;score:Q})"}, "attrs": {"encoder.num_classes": "N"}, "fparams": fp, "ret": "L(Q)",
          "calls": dict(enc, **{"np.zeros": {"coq": "zeros_q", "args": ["N"], "ignore_kw": ["dtype"], "ret": "L(Q)"}})})

    # ---- C04: the relational validators (objects are represented by their uuid)
    ce = {"attrs": {"self.annotations.clip.uuid": "Z", "self.predictions.clip.uuid": "Z", "self.annotations.sound_events": "L(Obj)",
                    "self.predictions.sound_events": "L(Obj)", "self.matches": "L(R{source:O(Obj);target:O(Obj)})"},
          "consts": {"self": ("tt", "U")}, "ret": "U"}
    unit("ClipEvaluation__check_clips_match", "data/clip_evaluations.py", "ClipEvaluation._check_clips_match", ce)
    unit("ClipEvaluation__check_matches", "data/clip_evaluations.py", "ClipEvaluation._check_matches", ce)
    unit("AnnotationProject__annotations_are_part_of_the_project", "data/annotation_projects.py",
         "AnnotationProject._annotations_are_part_of_the_project",
         {"attrs": {"self.tasks": "L(R{clip.uuid:Z})", "self.clip_annotations": "L(R{clip.uuid:Z;uuid:Z})"}, "consts": {"self": ("tt", "U")}, "ret": "U"})
    unit("Clip__validate_times", "data/clips.py", "Clip._validate_times",
         {"attrs": {"values.start_time": "Q", "values.end_time": "Q"}, "consts": {"values": ("tt", "U")}, "ret": "U"})

    # ---- C10: the numeric helpers of the crowsetta export
    unit("convert_geometry_to_bbox", "io/crowsetta/bbox.py", "convert_geometry_to_bbox",
         {"params": {"geometry": "G", "cast_to_bbox": "B", "raise_on_time_geometries": "B"}, "strings": TYPE_STRINGS, "ret": "T(Q,Q,Q,Q)",
          "calls": {"compute_bounds": BOUNDS_CALL}})
    unit("convert_time_to_sample", "io/crowsetta/segment.py", "convert_time_to_sample",
         {"params": {"time": "Q"}, "attrs": {"recording.samplerate": "Q"}, "ret": "Z"})

    # ---- C07: the loop of match_geometries that turns the selected pairs into the reported triples (what precedes it — the
    # affinity matrix, scipy's assignment and the leftover rows / columns — enters as the parameters cost_matrix and matches)
    unit("match_geometries_tail", "evaluation/match.py", "match_geometries",
         {"drop_params": ["source", "target", "time_buffer", "freq_buffer"], "skip_until_assigned": "matches",
          "extra_params": {"cost_matrix": "M", "matches": "L(T(O(N),O(N)))"}, "yields": True, "ret": "L(T(O(N),O(N),Q))", "custom": [mat_handler]})

    # ---- C08 / C09: which clips are evaluated (a clip prediction / annotation is represented by (clip uuid, own id))
    cobj = "R{clip.uuid:Z;uuid:Z}"
    unit("iterate_over_valid_clips", "evaluation/tasks/common.py", "iterate_over_valid_clips",
         {"params": {"clip_predictions": f"L({cobj})", "clip_annotations": f"L({cobj})"}, "yields": True, "ret": f"L(T({cobj},{cobj}))"})

    # ---- C13: the similarity matrix of group_sound_events (a sound event is represented by an identifier; the
    #      comparison function is a parameter of the definition)
    unit("compute_similarity_matrix", "geometry/operations.py", "_compute_similarity_matrix",
         {"params": {"sound_events": "L(Z)"}, "drop_params": ["comparison_fn"], "fparams": {"comparison_fn": "Z -> Z -> bool"},
          "calls": {"comparison_fn": {"coq": "comparison_fn", "args": ["Z", "Z"], "ret": "B"}}, "custom": [simmat_handler], "ret": "Coo"})

    out.append("(* glue: the helper called with its arguments in the order of the Python signature *)")
    out.append("Definition compute_similarity_matrix_py (sound_events : list Z) (comparison_fn : Z -> Z -> bool) : res coo :=\n  compute_similarity_matrix comparison_fn sound_events.")
    out.append("")
    unit("group_sound_events", "geometry/operations.py", "group_sound_events",
         {"params": {"sound_events": "L(Z)"}, "drop_params": ["comparison_fn"],
          "fparams": {"comparison_fn": "Z -> Z -> bool", "connected_components": "coo -> nat * list nat"}, "fn_names": ["comparison_fn"],
          "calls": {"_compute_similarity_matrix": {"coq": "compute_similarity_matrix_py", "args": ["L(Z)", "Fn"], "argnames": ["sound_events", "comparison_fn"], "ret": "Coo", "monadic": True},
                    "connected_components": {"coq": "connected_components", "args": ["Coo"], "ret": "T(N,L(N))"}},
          "custom": [group_handler], "rewrite": rewrite_defaultdict_of_sequences, "ret": "L(L(Z))"})

    # ---- C18: the path field written by RecordingAdapter.assemble_aoef and read back by assemble_soundevent
    for nm, meth in (("recording_save_path", "assemble_aoef"), ("recording_load_path", "assemble_soundevent")):
        unit(nm, "io/aoef/recording.py", f"RecordingAdapter.{meth}",
             {"extra_params": {"audio_dir": "O(Pth)", "obj_path": "Pth"}, "custom": [path_handler], "rewrite": slice_path_field, "ret": "Pth"})

    # ---- C15: what load_clip asks of the file (offset, samples) and says about the result (start and end of the time axis)
    unit("load_clip_plan", "audio/io.py", "load_clip",
         {"extra_params": {"clip_start_time": "Q", "clip_end_time": "Q", "recording_samplerate": "Q"}, "custom": [floor_handler],
          "rewrite": slice_load_clip_plan, "ret": "T(Z,Z,Q,Q)"})

    # ---- C05 (and the bounds every geometry property goes through): geometry_to_shapely and compute_bounds
    rel = "geometry/conversion.py"
    SHP_CALLS = {
        "shapely.linestrings": {"coq": "shp_linestring", "args": ["L(L(Q))"], "ret": "Shp", "monadic": True},
        "geometry.LineString": {"coq": "shp_linestring", "args": ["L(L(Q))"], "ret": "Shp", "monadic": True},
        "geometry.box": {"coq": "shp_box", "args": ["Q", "Q", "Q", "Q"], "ret": "Shp"},
        "geometry.Point": {"coq": "shp_point", "args": ["L(Q)"], "ret": "Shp", "monadic": True},
        "geometry.Polygon": {"coq": "shp_polygon", "args": ["L(L(Q))", "L(L(L(Q)))"], "ret": "Shp", "monadic": True},
        "geometry.MultiPoint": {"coq": "shp_multipoint", "args": ["L(L(Q))"], "ret": "Shp", "monadic": True},
        "geometry.MultiLineString": {"coq": "shp_multilinestring", "args": ["L(L(L(Q)))"], "ret": "Shp", "monadic": True},
        "geometry.MultiPolygon": {"coq": "shp_multipolygon", "args": ["L(Shp)"], "ret": "Shp", "monadic": True},
    }
    CONV = [("TimeStamp", "time_stamp_to_shapely"), ("TimeInterval", "time_interval_to_shapely"), ("Point", "point_to_shapely"),
            ("LineString", "linestring_to_shapely"), ("Polygon", "polygon_to_shapely"), ("BoundingBox", "bounding_box_to_shapely"),
            ("MultiPoint", "multipoint_to_shapely"), ("MultiLineString", "multilinestring_to_shapely"), ("MultiPolygon", "multipolygon_to_shapely")]
    CT = {"TimeStamp": "Q", "TimeInterval": "T(Q,Q)", "Point": "L(Q)", "LineString": "L(L(Q))", "Polygon": "L(L(L(Q)))", "BoundingBox": "T(Q,Q,Q,Q)",
          "MultiPoint": "L(L(Q))", "MultiLineString": "L(L(L(Q)))", "MultiPolygon": "L(L(L(L(Q))))"}
    TYPED = {"TimeStamp": ("TimeStamp t", "t"), "TimeInterval": ("TimeInterval s e", "(s, e)"), "Point": ("Point t f", "[t; f]"),
             "LineString": ("LineString l", "(pts_lists l)"), "Polygon": ("Polygon r", "(map pts_lists r)"), "BoundingBox": ("BBox s lo e hi", "(s, lo, e, hi)"),
             "MultiPoint": ("MultiPoint l", "(pts_lists l)"), "MultiLineString": ("MultiLineString l", "(map pts_lists l)"),
             "MultiPolygon": ("MultiPolygon l", "(map (map pts_lists) l)")}
    try:
        ct = tree(rel)
        defs, glue, dcalls = [], [], {}
        for cls_, fname_ in CONV:
            fnode = find_function(ct, fname_)
            pname = _Rename.fix(fnode.args.args[0].arg)
            ann = ast.unparse(fnode.args.args[0].annotation).split(".")[-1]
            if ann != cls_:
                raise Unsupported(f"{fname_} takes a {ann}")
            ctx = Ctx(src_root, rel, ct, None, fname_, consts, tree)
            ctx.calls = SHP_CALLS
            t_ = Fn(fnode, {"attrs": {f"{pname}.coordinates": CT[cls_]}, "calls": SHP_CALLS, "consts": consts, "ret": "Shp"}, fname_, ctx).translate()
            defs.extend(ctx.emitted + [t_])
            glue.append(f"Definition conv_{fname_} (g : geom) : res shp :=\n  match g with {TYPED[cls_][0]} => {fname_} {TYPED[cls_][1]} | _ => Err EOther end.")
            dcalls[fname_] = {"coq": f"conv_{fname_}", "args": ["G"], "ret": "Shp", "monadic": True}
        mnode = find_function_last(ct, "geometry_to_shapely")
        main = Fn(mnode, {"params": {_Rename.fix(mnode.args.args[0].arg): "G"}, "calls": dcalls, "strings": TYPE_STRINGS, "ret": "Shp"}, "geometry_to_shapely").translate()
        report["units"]["geometry_to_shapely"] = "translated"
        emit("geometry_to_shapely", "\n".join(defs + ["(* glue: the converters applied to a geometry object of their class *)"] + glue + [main]),
             f"(* from soundevent/{rel} :: the nine converters and the dispatch *)")
    except (Unsupported, OSError, SyntaxError, KeyError, IndexError, AttributeError, TypeError, ValueError, RecursionError) as ex:
        fall_back("geometry_to_shapely", ex)
    unit("compute_bounds_py", "geometry/operations.py", "compute_bounds",
         {"params": {"geometry": "G"}, "ret": "T(Q,Q,Q,Q)",
          "calls": {"geometry_to_shapely": {"coq": "geometry_to_shapely", "args": ["G"], "ret": "Shp", "monadic": True}}})

    # ---- C16 / C17 / C20: coordinate lookup and label cropping on one axis
    unit("get_dim_range", "arrays/dimensions.py", "get_dim_range", {"params": {"array": "Arr", "dim": "U"}, "custom": [arr_handler], "ret": "T(Q,Q)"})
    unit("get_coord_index", "arrays/dimensions.py", "get_coord_index",
         {"params": {"arr": "Arr", "dim": "U", "value": "Q", "raise_error": "B"}, "custom": [arr_handler], "ret": "Z"})
    unit("crop_dim", "arrays/operations.py", "crop_dim",
         {"params": {"arr": "Arr", "dim": "U", "start": "O(Q)", "stop": "O(Q)", "right_closed": "B", "left_closed": "B", "eps": "Q"},
          "custom": [arr_handler], "ret": "Arr"})

    # ---- C05: compute_geometric_features: the nine per-type functions and the dispatch table
    rel = "geometry/features.py"
    TERMS = {"terms.duration": ("Duration", "Fname"), "terms.low_freq": ("LowFreq", "Fname"), "terms.high_freq": ("HighFreq", "Fname"),
             "terms.bandwidth": ("Bandwidth", "Fname"), "terms.num_segments": ("NumSegments", "Fname")}
    fcalls = {"Feature": {"coq": "mk_feature", "args": ["Fname", "Q"], "argnames": ["term", "value"], "ret": "T(Fname,Q)"},
              "geometry_to_shapely": {"coq": "to_shapely", "args": ["G"], "ret": "Shp"}}
    COORD = {"TimeStamp": "Q", "TimeInterval": "T(Q,Q)", "BoundingBox": "T(Q,Q,Q,Q)"}
    ARGS = {"TimeStamp": ("TimeStamp t", "t"), "TimeInterval": ("TimeInterval s e", "(s, e)"), "BoundingBox": ("BBox s lo e hi", "(s, lo, e, hi)"),
            "Point": ("Point _ _", None), "LineString": ("LineString _", None), "Polygon": ("Polygon _", None), "MultiPoint": ("MultiPoint _", None),
            "MultiLineString": ("MultiLineString _", None), "MultiPolygon": ("MultiPolygon _", None)}
    try:
        ft = tree(rel)
        table = None
        for n in ft.body:
            tgt = n.target if isinstance(n, ast.AnnAssign) else (n.targets[0] if isinstance(n, ast.Assign) and len(n.targets) == 1 else None)
            if isinstance(tgt, ast.Name) and tgt.id == "_COMPUTE_FEATURES" and isinstance(n.value, ast.Dict):
                table = n.value
        if table is None:
            raise Unsupported("_COMPUTE_FEATURES is not a dict display")
        main = find_function(ft, "compute_geometric_features")
        mb = [x for x in main.body if not (isinstance(x, ast.Expr) and isinstance(x.value, ast.Constant))]
        want = "try:\n    return _COMPUTE_FEATURES[geometry.type](geometry)\nexcept KeyError as error:\n    raise NotImplementedError(f'Geometry type {geometry.type} is not supported.') from error"
        if len(mb) != 1 or ast.unparse(mb[0]) != want:
            raise Unsupported("compute_geometric_features is not the plain table lookup")
        defs, arms, seen = [], [], {}
        for kx, vx in zip(table.keys, table.values):
            cls_ = None
            for c, _t, _ in GEOM_CLASSES:
                if kx is not None and ast.unparse(kx) == f"geometries.{c}.geom_type()":
                    cls_ = c
            if cls_ is None or not isinstance(vx, ast.Name):
                raise Unsupported(f"table entry {ast.unparse(kx) if kx is not None else '**'}")
            fnode = find_function(ft, vx.id)
            ann = ast.unparse(fnode.args.args[0].annotation).split(".")[-1] if fnode.args.args and fnode.args.args[0].annotation is not None else None
            pname = fnode.args.args[0].arg
            if ann != cls_:
                raise Unsupported(f"{vx.id} is registered for {cls_} but takes a {ann}")
            iface = {"calls": fcalls, "consts": TERMS, "ret": "L(T(Fname,Q))"}
            if ann in COORD:
                if pname == "_":
                    iface["drop_params"] = ["_"]
                    uses = False
                else:
                    iface["attrs"] = {f"{pname}.coordinates": COORD[ann]}
                    uses = True
                arg = (ARGS[cls_][1] if uses else "")
            else:
                iface["params"] = {pname: "G"}
                arg = "g"
            cname = "features" + vx.id
            if vx.id not in seen:
                ctx = Ctx(src_root, rel, ft, None, cname, TERMS, tree)
                ctx.calls = fcalls
                t_ = Fn(fnode, iface, cname, ctx).translate()
                defs.extend(ctx.emitted + [t_])
                seen[vx.id] = True
            arms.append(f"| {ARGS[cls_][0]} => {cname} {arg}".rstrip())
        for c in ARGS:  # a class missing from the table: KeyError -> NotImplementedError
            if not any(a.startswith(f"| {ARGS[c][0]} ") for a in arms):
                arms.append(f"| {ARGS[c][0]} => Err ENotImpl")
        defs.append("Definition compute_geometric_features (g : geom) : res (list (fname * Q)) :=\nmatch g with\n" + "\n".join(arms) + "\nend.")
        report["units"]["compute_geometric_features"] = "translated"
        emit("compute_geometric_features", "\n".join(defs), f"(* from soundevent/{rel} :: the nine per-type functions and the table _COMPUTE_FEATURES *)")
    except (Unsupported, OSError, SyntaxError, KeyError, IndexError, AttributeError, TypeError, ValueError, RecursionError) as ex:
        fall_back("compute_geometric_features", ex)

    body = "\n".join(out) + "\n"
    names = re.findall(r"^Definition ([A-Za-z0-9_']+)", body, flags=re.M)
    body += "\n(* every definition above can be unfolded by `autounfold with src` (used by the Gen proofs, so that\n   they do not depend on how the source is split into helper functions) *)\nCreate HintDb src.\n#[export] Hint Unfold " + " ".join(names) + " : src.\n"
    return body, report


if __name__ == "__main__":
    import json
    import sys

    root = Path(sys.argv[1] if len(sys.argv) > 1 else "/repo/src")
    txt, rep = generate(root)
    if "--freeze" in sys.argv:  # record the translation of the (pinned, repaired) tree as the fall-back text
        assert all(v == "translated" for v in rep["units"].values()), rep["units"]
        CANON_PATH.write_text(json.dumps(rep["texts"], indent=1))
        print("frozen", len(rep["texts"]), "units")
    else:
        Path(sys.argv[2] if len(sys.argv) > 2 else "/verif/coq/Gen/Source.v").write_text(txt)
        print(json.dumps(rep["units"], indent=1))
